//! ids06: histories with adversarial call-result maps, for C06 (call request ids are fresh, results
//! reach the call that requested them) and C05 (each call runs once, its result is never lost).
//!
//! Differences to `exec`:
//!  * every service result carries the identity of the request it answers: the tag
//!    `<peer name>#<call id>#<function>` is put into the value (first element of an array, field `_id`
//!    of an object, `{"_id": tag, "v": x}` around any other value; peer ids used as call targets stay
//!    as they are) or into the error text (`<<tag>>`), so "applied to the call that requested it and
//!    no other" is observable in the data and in the arguments of later requests;
//!  * scripts give every call site its own function name `base#site` (the behaviour is looked up under
//!    `base`), so a call instance is identified by (function, arguments);
//!  * a "return" operation may add results under STALE ids (answered in an earlier run), under ids that
//!    were NEVER issued, and may come together with new current data;
//!  * the oracles are written from the property texts (see `oracle_*` below);
//!  * runs are printed as `ecase` terms of model/ExecCases.v for the lock-step with the executor model
//!    (term printing copied from bin/exec.rs).
//!
//! input : {"script","peers","init","services","ops","particle_id","oracles":["C06","C05"],
//!          "probe": {"every": k, "at": [steps], "special": bool, "max": n} | null, "stream_fold_sites": [..]}
//!   ops : ["start"] | ["idle",p] | ["d",k] | ["dup",k] | ["re",k]
//!       | ["r", p, mask, {"stale": n, "never": n, "cur": k|null, "sel": s}]
//! output: {"script_term","coq":[ecase..],"classes":[..],"info":[..],"oracle_failures":[..],"runs","invocations","stats":{..}}

use air_interpreter_cid::value_to_json_cid;
use air_interpreter_data::*;
use air_interpreter_value::JValue;
use aquah::ast2coq;
use aquah::coqfmt as c;
use aquah::oracles;
use aquah::sim::*;
use serde_json::json;
use serde_json::Value as J;
use std::collections::{BTreeMap, BTreeSet, HashMap};
use std::io::BufRead;

// ------------------------------------------------------------------------------------------
// term printing (as in bin/exec.rs)

pub fn json_term(j: &J) -> String {
    match j {
        J::Null => "JNull".into(),
        J::Bool(b) => format!("(JBool {})", c::b(*b)),
        J::Number(n) => {
            if let Some(i) = n.as_i64() {
                format!("(JInt {})", c::z(i as i128))
            } else if let Some(u) = n.as_u64() {
                format!("(JInt {})", c::z(u as i128))
            } else {
                format!("(JFloat {})", c::s(&n.to_string()))
            }
        }
        J::String(s) => format!("(JStr {})", c::s(s)),
        J::Array(a) => format!("(JArr {})", c::list(a.iter().map(json_term))),
        J::Object(o) => {
            let mut keys: Vec<&String> = o.keys().collect();
            keys.sort_by(|a, b| a.as_bytes().cmp(b.as_bytes()));
            format!("(JObj {})", c::list(keys.iter().map(|k| format!("({}, {})", c::s(k), json_term(&o[*k])))))
        }
    }
}

fn jvalue_to_json(v: &JValue) -> J {
    serde_json::to_value(v).unwrap_or(J::Null)
}

fn tetraplet_term(t: &polyplets::SecurityTetraplet) -> String {
    format!(
        "{{| tp_peer := {}; tp_service := {}; tp_function := {}; tp_lens := {} |}}",
        c::s(&t.peer_pk),
        c::s(&t.service_id),
        c::s(&t.function_name),
        c::s(&t.lens)
    )
}

#[derive(Default)]
struct Dict {
    values: HashMap<String, J>,
    args: HashMap<String, Vec<J>>,
}

struct Resolver<'a> {
    dict: &'a Dict,
    infos: Vec<&'a CidInfo>,
    memo: HashMap<String, String>,
}

impl<'a> Resolver<'a> {
    fn value(&mut self, cid: &str) -> String {
        for ci in &self.infos {
            if let Some(v) = ci.value_store.get(&air_interpreter_cid::CID::new(cid)) {
                return format!("(CValue {})", json_term(&jvalue_to_json(&v.get_value())));
            }
        }
        if let Some(v) = self.dict.values.get(cid) {
            return format!("(CValue {})", json_term(v));
        }
        format!("(COpaque {})", c::s(cid))
    }
    fn tetraplet(&mut self, cid: &str) -> String {
        for ci in &self.infos {
            if let Some(t) = ci.tetraplet_store.get(&air_interpreter_cid::CID::new(cid)) {
                return format!("(CTetraplet {})", tetraplet_term(&t));
            }
        }
        format!("(COpaque {})", c::s(cid))
    }
    fn args(&mut self, hash: &str) -> String {
        match self.dict.args.get(hash) {
            Some(a) => format!("(CArgs {})", c::list(a.iter().map(json_term))),
            None => format!("(COpaque {})", c::s(hash)),
        }
    }
    fn service(&mut self, cid: &str) -> String {
        if let Some(m) = self.memo.get(cid) {
            return m.clone();
        }
        let mut out = format!("(COpaque {})", c::s(cid));
        let infos = self.infos.clone();
        for ci in infos {
            if let Some(a) = ci.service_result_store.get(&air_interpreter_cid::CID::new(cid)) {
                out = format!(
                    "(CService {} {} {})",
                    self.value(&a.value_cid.get_inner()),
                    self.args(&a.argument_hash),
                    self.tetraplet(&a.tetraplet_cid.get_inner())
                );
                break;
            }
        }
        self.memo.insert(cid.to_string(), out.clone());
        out
    }
    fn provenance(&mut self, p: &Provenance) -> String {
        match p {
            Provenance::Literal => "None".into(),
            Provenance::ServiceResult { cid } => format!("(Some (true, {}))", self.service(&cid.get_inner())),
            Provenance::Canon { cid } => format!("(Some (false, {}))", self.canon_result(&cid.get_inner())),
        }
    }
    fn canon_elem(&mut self, cid: &str) -> String {
        let infos = self.infos.clone();
        for ci in infos {
            if let Some(a) = ci.canon_element_store.get(&air_interpreter_cid::CID::new(cid)) {
                return format!(
                    "(CCanonElem {} {} {})",
                    self.value(&a.value.get_inner()),
                    self.tetraplet(&a.tetraplet.get_inner()),
                    self.provenance(&a.provenance)
                );
            }
        }
        format!("(COpaque {})", c::s(cid))
    }
    fn canon_result(&mut self, cid: &str) -> String {
        if let Some(m) = self.memo.get(cid) {
            return m.clone();
        }
        let mut out = format!("(COpaque {})", c::s(cid));
        let infos = self.infos.clone();
        for ci in infos {
            if let Some(a) = ci.canon_result_store.get(&air_interpreter_cid::CID::new(cid)) {
                let vals: Vec<String> = a.values.iter().map(|v| self.canon_elem(&v.get_inner())).collect();
                out = format!("(CCanonResult {} {})", self.tetraplet(&a.tetraplet.get_inner()), c::list(vals));
                break;
            }
        }
        self.memo.insert(cid.to_string(), out.clone());
        out
    }
    fn gen_u32(g: &GenerationIdx) -> u32 {
        let u: usize = (*g).into();
        u as u32
    }
    fn pos_u32(p: TracePos) -> u32 {
        let u: usize = p.into();
        u as u32
    }
    fn state(&mut self, s: &ExecutedState) -> String {
        match s {
            ExecutedState::Par(p) => format!("(SPar {} {})", p.left_size, p.right_size),
            ExecutedState::Call(CallResult::RequestSentBy(Sender::PeerId(p))) => format!("(SCall (RequestSentBy (SPeer {})))", c::s(p)),
            ExecutedState::Call(CallResult::RequestSentBy(Sender::PeerIdWithCallId { peer_id, call_id })) => {
                format!("(SCall (RequestSentBy (SPeerCall {} {})))", c::s(peer_id), call_id)
            }
            ExecutedState::Call(CallResult::Executed(ValueRef::Scalar(cid))) => format!("(SCall (Executed (VRScalar {})))", self.service(&cid.get_inner())),
            ExecutedState::Call(CallResult::Executed(ValueRef::Stream { cid, generation })) => {
                format!("(SCall (Executed (VRStream {} {})))", self.service(&cid.get_inner()), Self::gen_u32(generation))
            }
            ExecutedState::Call(CallResult::Executed(ValueRef::Unused(cid))) => format!("(SCall (Executed (VRUnused {})))", self.value(&cid.get_inner())),
            ExecutedState::Call(CallResult::Failed(cid)) => format!("(SCall (Failed {}))", self.service(&cid.get_inner())),
            ExecutedState::Ap(a) => format!("(SAp {})", c::list(a.res_generations.iter().map(|g| format!("{}", Self::gen_u32(g))))),
            ExecutedState::Canon(CanonResult::RequestSentBy(p)) => format!("(SCanon (CanonRequestSentBy {}))", c::s(p)),
            ExecutedState::Canon(CanonResult::Executed(cid)) => format!("(SCanon (CanonExecuted {}))", self.canon_result(&cid.get_inner())),
            ExecutedState::Fold(f) => format!(
                "(SFold {})",
                c::list(f.lore.iter().map(|e| format!(
                    "{{| fl_value_pos := {}; fl_descs := {} |}}",
                    Self::pos_u32(e.value_pos),
                    c::list(e.subtraces_desc.iter().map(|d| format!("{{| sd_pos := {}; sd_len := {} |}}", Self::pos_u32(d.begin_pos), d.subtrace_len)))
                )))
            ),
        }
    }
    fn cid_state(&mut self, ci: &CidInfo) -> String {
        let mut vs: Vec<String> = ci.value_store.iter().map(|(k, _)| k.get_inner().to_string()).collect();
        vs.sort();
        let mut ts: Vec<String> = ci.tetraplet_store.iter().map(|(k, _)| k.get_inner().to_string()).collect();
        ts.sort();
        let mut ce: Vec<String> = ci.canon_element_store.iter().map(|(k, _)| k.get_inner().to_string()).collect();
        ce.sort();
        let mut cr: Vec<String> = ci.canon_result_store.iter().map(|(k, _)| k.get_inner().to_string()).collect();
        cr.sort();
        let mut ss: Vec<String> = ci.service_result_store.iter().map(|(k, _)| k.get_inner().to_string()).collect();
        ss.sort();
        format!(
            "{{| cs_values := {}; cs_tetraplets := {}; cs_canon_elems := {}; cs_canon_results := {}; cs_services := {} |}}",
            c::list(vs.iter().map(|k| self.value(k))),
            c::list(ts.iter().map(|k| self.tetraplet(k))),
            c::list(ce.iter().map(|k| self.canon_elem(k))),
            c::list(cr.iter().map(|k| self.canon_result(k))),
            c::list(ss.iter().map(|k| self.service(k)))
        )
    }
    fn data(&mut self, d: &InterpreterData) -> String {
        let trace: Vec<String> = d.trace.iter().map(|s| self.state(s)).collect();
        format!("{{| d_trace := {}; d_lcid := {}; d_cids := {} |}}", c::list(trace), d.last_call_request_id, self.cid_state(&d.cid_info))
    }
}

fn request_term(r: &Req) -> String {
    let tets: Vec<Vec<polyplets::SecurityTetraplet>> = serde_json::from_value(r.tetraplets.clone()).unwrap_or_default();
    format!(
        "{{| rq_service := {}; rq_function := {}; rq_args := {}; rq_tetraplets := {} |}}",
        c::s(&r.service),
        c::s(&r.function),
        c::list(r.args.iter().map(json_term)),
        c::list(tets.iter().map(|ts| c::list(ts.iter().map(tetraplet_term))))
    )
}

fn attributed(trace: &ExecutionTrace, ci: &CidInfo, peer: &str) -> Vec<(bool, String)> {
    let mut out = vec![];
    for st in trace.iter() {
        match st {
            ExecutedState::Call(call) => {
                if let Some(cid) = call.get_cid() {
                    if let Some(sr) = ci.service_result_store.get(cid) {
                        if let Some(t) = ci.tetraplet_store.get(&sr.tetraplet_cid) {
                            if t.peer_pk == peer {
                                out.push((true, cid.get_inner().to_string()));
                            }
                        }
                    }
                }
            }
            ExecutedState::Canon(CanonResult::Executed(cid)) => {
                if let Some(cr) = ci.canon_result_store.get(cid) {
                    if let Some(t) = ci.tetraplet_store.get(&cr.tetraplet) {
                        if t.peer_pk == peer {
                            out.push((false, cid.get_inner().to_string()));
                        }
                    }
                }
            }
            _ => {}
        }
    }
    out
}

fn ecase_term(rec: &StepRecord, dict: &Dict) -> Option<(String, String, J)> {
    let prev = decode_data(&rec.input.prev).ok();
    let cur = decode_data(&rec.input.cur).ok();
    if (!rec.input.prev.is_empty() && prev.is_none()) || (!rec.input.cur.is_empty() && cur.is_none()) {
        return None;
    }
    let new = decode_data(&rec.out.data).ok();
    let mut infos_ci: Vec<&CidInfo> = vec![];
    if let Some(d) = &prev { infos_ci.push(&d.data.cid_info); }
    if let Some(d) = &cur { infos_ci.push(&d.data.cid_info); }
    if let Some(d) = &new { infos_ci.push(&d.data.cid_info); }
    let mut rs = Resolver { dict, infos: infos_ci, memo: HashMap::new() };
    let prev_t = prev.as_ref().map(|d| rs.data(&d.data)).unwrap_or_else(|| "empty_data".into());
    let cur_t = cur.as_ref().map(|d| rs.data(&d.data)).unwrap_or_else(|| "empty_data".into());
    let results_t = c::list(rec.input.call_results.iter().map(|(id, (code, text))| {
        let parsed = serde_json::from_str::<JValue>(text).ok().map(|v| json_term(&jvalue_to_json(&v)));
        format!("({}, {{| sa_ret_code := {}; sa_text := {}; sa_parsed := {} |}})", id, c::z(*code as i128), c::s(text), c::opt(parsed))
    }));
    let params_t = format!(
        "{{| rp_init_peer := {}; rp_current_peer := {}; rp_timestamp := {}; rp_ttl := {} |}}",
        c::s(&rec.input.init_peer_id), c::s(&rec.input.current_peer_id), rec.input.timestamp, rec.input.ttl
    );
    let input_t = format!(
        "{{| ri_script := script; ri_params := {}; ri_prev := {}; ri_cur := {}; ri_results := {} |}}",
        params_t, prev_t, cur_t, results_t
    );
    let out = &rec.out;
    let (kind, cls): (u32, String) = if out.panic.is_some() {
        (2, "panic".into())
    } else if out.data == rec.input.prev && ((1..10000).contains(&out.code) || (20000..30000).contains(&out.code)) {
        (1, format!("prev:{}", out.code))
    } else if out.data.is_empty() {
        (3, format!("empty:{}", out.code))
    } else {
        (0, format!("new:{}", out.code))
    };
    let mut next = out.next.clone();
    next.sort();
    let (trace_t, lcid, cids_t, signed_t) = match (&new, kind) {
        (Some(d), 0) => {
            let att = attributed(&d.data.trace, &d.data.cid_info, &rec.input.current_peer_id);
            let signed: Vec<String> = att.iter().map(|(is_call, cid)| if *is_call { rs.service(cid) } else { rs.canon_result(cid) }).collect();
            let tr: Vec<String> = d.data.trace.iter().map(|s| rs.state(s)).collect();
            (c::list(tr), d.data.last_call_request_id, rs.cid_state(&d.data.cid_info), c::list(signed))
        }
        _ => ("[]".into(), 0, "empty_cids".into(), "[]".into()),
    };
    let reqs_t = match &out.requests {
        Some(m) => c::list(m.iter().map(|(id, r)| format!("({}, {})", id, request_term(r)))),
        None => "[]".into(),
    };
    let obs_t = format!(
        "{{| eo_kind := {}; eo_code := {}; eo_trace := {}; eo_lcid := {}; eo_next := {}; eo_requests := {}; eo_signed := {}; eo_cids := {} |}}",
        kind, c::z(out.code as i128), trace_t, lcid, c::list(next.iter().map(|p| c::s(p))), reqs_t, signed_t, cids_t
    );
    let info = json!({"step": rec.step, "peer": rec.peer, "code": out.code,
        "trace_len": new.as_ref().map(|d| d.data.trace.len()), "requests": out.requests.as_ref().map(|r| r.len()), "next": out.next.len(),
        "supplied": rec.input.call_results.len()});
    Some((format!("{{| ec_input := {}; ec_obs := {} |}}", input_t, obs_t), cls, info))
}

// ------------------------------------------------------------------------------------------
// tagged services

fn tag_of(peer: &str, id: u32, func: &str) -> String {
    format!("{}#{}#{}", peer, id, func)
}

fn parse_tag(s: &str) -> Option<(String, u32, String)> {
    let mut it = s.splitn(3, '#');
    let p = it.next()?;
    let i = it.next()?;
    let f = it.next()?;
    if p.is_empty() || p.len() > 3 || !p.chars().all(|ch| ch.is_ascii_uppercase()) {
        return None;
    }
    let id: u32 = i.parse().ok()?;
    Some((p.to_string(), id, f.to_string()))
}

/// the tag a value carries at its top level
fn value_tag(v: &J) -> Option<(String, u32, String)> {
    match v {
        J::Array(a) => a.first().and_then(|x| x.as_str()).and_then(parse_tag),
        J::Object(o) => {
            if let Some(t) = o.get("_id").and_then(|x| x.as_str()).and_then(parse_tag) {
                return Some(t);
            }
            // CallServiceFailed { ret_code, message }: the tag is inside the message
            let m = o.get("message").and_then(|x| x.as_str())?;
            let a = m.rfind("<<")?;
            let b = m[a..].find(">>")? + a;
            parse_tag(&m[a + 2..b])
        }
        _ => None,
    }
}

/// every tag string anywhere inside a value
fn all_tags(v: &J, out: &mut Vec<(String, u32, String)>) {
    match v {
        J::String(s) => {
            if let Some(t) = parse_tag(s) {
                out.push(t);
            } else if let (Some(a), Some(b)) = (s.rfind("<<"), s.rfind(">>")) {
                if a + 2 <= b {
                    if let Some(t) = parse_tag(&s[a + 2..b]) {
                        out.push(t);
                    }
                }
            }
        }
        J::Array(a) => a.iter().for_each(|x| all_tags(x, out)),
        J::Object(o) => o.values().for_each(|x| all_tags(x, out)),
        _ => {}
    }
}

fn wrap(value: J, tag: &str, peer_ids: &[String]) -> (J, bool) {
    match value {
        J::Array(mut a) => {
            a.insert(0, J::String(tag.into()));
            (J::Array(a), true)
        }
        J::Object(mut o) => {
            o.insert("_id".into(), J::String(tag.into()));
            (J::Object(o), true)
        }
        J::String(s) if peer_ids.contains(&s) => (J::String(s), false),
        other => (json!({"_id": tag, "v": other}), true),
    }
}

fn base_of(function: &str) -> &str {
    function.split('#').next().unwrap_or(function)
}

/// (ret_code, text), tagged?
fn answer(services: &Services, peer_name: &str, id: u32, req: &Req, peer_ids: &[String]) -> ((i32, String), bool) {
    let mut breq = req.clone();
    breq.function = base_of(&req.function).to_string();
    let (code, text) = services.call(peer_name, &breq);
    let tag = tag_of(peer_name, id, &req.function);
    if code != 0 {
        return ((code, format!("{} <<{}>>", text, tag)), true);
    }
    match serde_json::from_str::<J>(&text) {
        Ok(v) => {
            let (w, tagged) = wrap(v, &tag, peer_ids);
            ((0, w.to_string()), tagged)
        }
        Err(_) => ((0, format!("{} <<{}>>", text, tag)), true),
    }
}

fn value_cid_of_text(text: &str) -> Option<String> {
    let v: JValue = serde_json::from_str(text).ok()?;
    value_to_json_cid(&v).ok().map(|c| c.get_inner().to_string())
}

fn arg_hash(args: &[J]) -> String {
    let a: Vec<JValue> = args.iter().cloned().map(JValue::from).collect();
    value_to_json_cid(&a).map(|c| c.get_inner().to_string()).unwrap_or_default()
}

// ------------------------------------------------------------------------------------------
// bookkeeping of one host

#[derive(Default)]
struct Book {
    issued: BTreeMap<u32, Req>,
    /// id -> (ret_code, text, tagged, value cid of the text when it is JSON)
    answered: BTreeMap<u32, (i32, String, bool, Option<String>)>,
    answered_order: Vec<u32>,
    max_issued: Option<u32>,
    /// value cids of results supplied under stale / never issued ids
    bogus_cids: BTreeSet<String>,
    bogus_supplied: usize,
}

struct Supplied {
    pending: Vec<u32>,
    stale: Vec<u32>,
    never: Vec<u32>,
}

fn fail(prop: &str, step: usize, what: String, key: &str) -> J {
    json!({"property": prop, "step": step, "what": what, "key": key})
}

fn is_prev_code(code: i64) -> bool {
    (1..=9999).contains(&code) || (20000..=29999).contains(&code)
}

/// what the trace of `me` says about the ids of `me`
struct TraceView {
    pending: BTreeMap<u32, usize>,
    done: BTreeMap<u32, usize>,
    /// (function, argument hash) of states attributed to me whose value carries no tag
    untagged: BTreeMap<(String, String), usize>,
    /// Unused(value cid) states (a call without output)
    unused: BTreeMap<String, usize>,
}

// ------------------------------------------------------------------------------------------

fn run_case(case: &J) -> J {
    let peers: Vec<String> = case["peers"].as_array().map(|a| a.iter().filter_map(|x| x.as_str().map(String::from)).collect()).unwrap_or_default();
    let script = Net::instantiate(case["script"].as_str().unwrap_or("(null)"), &peers);
    let services_json = Net::instantiate(&case["services"].to_string(), &peers);
    let services = Services::from_json(&serde_json::from_str(&services_json).unwrap_or(J::Null));
    let init = case["init"].as_u64().unwrap_or(0) as usize;
    let want: Vec<String> = case["oracles"].as_array().map(|a| a.iter().filter_map(|x| x.as_str().map(String::from)).collect()).unwrap_or_default();
    let wants = |p: &str| want.iter().any(|w| w == p);
    let stream_fold_sites: BTreeSet<String> = case["stream_fold_sites"].as_array().map(|a| a.iter().filter_map(|x| x.as_str().map(String::from)).collect()).unwrap_or_default();
    let probe_every = case["probe"]["every"].as_u64().unwrap_or(0) as usize;
    let probe_special = case["probe"]["special"].as_bool().unwrap_or(false);
    let probe_max = case["probe"]["max"].as_u64().unwrap_or(u64::MAX) as usize;
    let probe_at: Vec<u64> = case["probe"]["at"].as_array().map(|a| a.iter().filter_map(|x| x.as_u64()).collect()).unwrap_or_default();
    let probe_steps: Option<Vec<u64>> = case["probe_steps"].as_array().map(|a| a.iter().filter_map(|x| x.as_u64()).collect());

    let ast = match air_parser::parse(&script) {
        Ok(a) => a,
        Err(e) => return json!({"error": format!("script does not parse: {}", e.chars().take(300).collect::<String>())}),
    };
    let script_term = ast2coq::instr(&ast);

    let mut net = Net::new(&script, &peers, init, services, case["particle_id"].as_str().unwrap_or("particle-1"));
    let peer_ids: Vec<String> = net.hosts.iter().map(|h| h.peer.id.clone()).collect();
    let mut books: Vec<Book> = peers.iter().map(|_| Book::default()).collect();
    let mut dict = Dict::default();
    let mut terms = vec![];
    let mut classes = vec![];
    let mut infos = vec![];
    let mut failures: Vec<J> = vec![];
    let mut stats: BTreeMap<String, u64> = BTreeMap::new();
    let bump = |k: &str, n: u64, stats: &mut BTreeMap<String, u64>| {
        *stats.entry(k.to_string()).or_insert(0) += n;
    };

    let ops = case["ops"].as_array().cloned().unwrap_or_default();
    let mut all_ops = ops.clone();
    if wants("C05") || case["drain"].as_bool().unwrap_or(false) {
        for _ in 0..60 {
            for p in 0..peers.len() {
                all_ops.push(json!(["r", p, 0, {}]));
            }
            all_ops.push(json!(["d", 0]));
        }
    }
    let scheduled = ops.len();
    let mut special_probes = 0usize;

    for (opi, op) in all_ops.iter().enumerate() {
        let kind = op[0].as_str().unwrap_or("start");
        let n1 = op.get(1).and_then(|x| x.as_u64()).unwrap_or(0) as usize;
        // ---- decide the run ------------------------------------------------------------
        let mut sup = Supplied { pending: vec![], stale: vec![], never: vec![] };
        let (p, cur, results): (usize, Vec<u8>, BTreeMap<u32, (i32, String)>) = match kind {
            "idle" => (n1 % peers.len(), vec![], BTreeMap::new()),
            "d" | "dup" => {
                if net.inflight.is_empty() { continue; }
                let i = n1 % net.inflight.len();
                let m = if kind == "dup" { net.inflight[i].clone() } else { net.inflight.remove(i) };
                net.delivered.push(m.clone());
                (m.to, m.data, BTreeMap::new())
            }
            "re" => {
                if net.delivered.is_empty() { continue; }
                let m = net.delivered[n1 % net.delivered.len()].clone();
                (m.to, m.data, BTreeMap::new())
            }
            "r" => {
                let p = n1 % peers.len();
                let mask = op.get(2).and_then(|x| x.as_u64()).unwrap_or(0);
                let ex = op.get(3).cloned().unwrap_or(J::Null);
                let n_stale = ex["stale"].as_u64().unwrap_or(0) as usize;
                let n_never = ex["never"].as_u64().unwrap_or(0) as usize;
                let sel = ex["sel"].as_u64().unwrap_or(0) as usize;
                let with_cur = ex["cur"].as_u64();
                let mut res = BTreeMap::new();
                let ids: Vec<u32> = net.hosts[p].pending.keys().cloned().collect();
                for (i, id) in ids.iter().enumerate() {
                    if (mask >> (i % 64)) & 1 == 1 || mask == 0 {
                        let req = net.hosts[p].pending.remove(id).unwrap();
                        let name = net.hosts[p].peer.name.clone();
                        let (r, tagged) = answer(&net.services, &name, *id, &req, &peer_ids);
                        net.hosts[p].log.push((*id, req, r.clone()));
                        books[p].answered.insert(*id, (r.0, r.1.clone(), tagged, value_cid_of_text(&r.1)));
                        books[p].answered_order.push(*id);
                        res.insert(*id, r);
                        sup.pending.push(*id);
                    }
                }
                let name = net.hosts[p].peer.name.clone();
                let bogus = |id: u32, j: usize, res: &mut BTreeMap<u32, (i32, String)>, books: &mut Vec<Book>| -> bool {
                    if res.contains_key(&id) || net.hosts[p].pending.contains_key(&id) {
                        return false;
                    }
                    let tag = tag_of(&name, id, &format!("BOGUS{}", opi * 10 + j));
                    let r = if (sel + j) % 5 == 4 {
                        (7, format!("bogus failure <<{}>>", tag))
                    } else {
                        (0, json!({"_id": tag, "v": "bogus"}).to_string())
                    };
                    if let Some(cid) = value_cid_of_text(&r.1) {
                        books[p].bogus_cids.insert(cid);
                    }
                    books[p].bogus_supplied += 1;
                    res.insert(id, r);
                    true
                };
                // stale: ids answered in an EARLIER run (the ones answered right now are in `res`)
                let earlier: Vec<u32> = books[p].answered_order.iter().cloned().filter(|i| !sup.pending.contains(i)).collect();
                if !earlier.is_empty() {
                    for j in 0..n_stale {
                        let id = earlier[(sel + j * 7) % earlier.len()];
                        if bogus(id, j, &mut res, &mut books) {
                            sup.stale.push(id);
                        }
                    }
                }
                for j in 0..n_never {
                    let base = books[p].max_issued.unwrap_or(0);
                    let id = if (sel + j) % 3 == 2 { 4_000_000_000u32 - ((sel * 13 + j) % 1000) as u32 } else { base + 1 + ((sel + 2 * j) % 4) as u32 };
                    if bogus(id, 100 + j, &mut res, &mut books) {
                        sup.never.push(id);
                    }
                }
                let cur = match with_cur {
                    Some(k) if !net.inflight.is_empty() => {
                        let targeted: Vec<usize> = net.inflight.iter().enumerate().filter(|(_, m)| m.to == p).map(|(i, _)| i).collect();
                        if targeted.is_empty() { vec![] } else {
                            let m = net.inflight.remove(targeted[(k as usize) % targeted.len()]);
                            net.delivered.push(m.clone());
                            bump("runs with results and new current data", 1, &mut stats);
                            m.data
                        }
                    }
                    _ => vec![],
                };
                if res.is_empty() && cur.is_empty() { continue; }
                (p, cur, res)
            }
            _ => (init, vec![], BTreeMap::new()),
        };
        // ---- run -----------------------------------------------------------------------
        let input = net.make_input(p, cur, results);
        let out = run(&input);
        let inflight_before = net.inflight.len();
        net.apply(p, &out);
        // next_peer_pks comes out of a hash set: its order differs between processes; the schedule must not depend on it
        // (replays written for the `exec` driver -- no "stream_fold_sites" field -- keep the order they were recorded with)
        if !case["stream_fold_sites"].is_null() {
            net.inflight[inflight_before..].sort_by_key(|m| m.to);
        }
        let rec = StepRecord { step: net.step, peer: p, input, out };
        net.step += 1;
        let o = &rec.out;
        let me_id = net.hosts[p].peer.id.clone();
        let me_name = net.hosts[p].peer.name.clone();
        bump("runs", 1, &mut stats);
        if !sup.stale.is_empty() { bump("runs with stale ids", 1, &mut stats); }
        if !sup.never.is_empty() { bump("runs with never issued ids", 1, &mut stats); }
        if sup.pending.len() > 1 { bump("runs with several results", 1, &mut stats); }
        if o.panic.is_some() { bump("panics", 1, &mut stats); }

        // ---- C06: freshness ------------------------------------------------------------
        let unknown: Vec<u32> = sup.stale.iter().chain(sup.never.iter()).cloned().collect();
        if o.panic.is_none() {
            if let Some(reqs) = &o.requests {
                for (id, r) in reqs {
                    if let Some(m) = books[p].max_issued {
                        if *id <= m && wants("C06") {
                            failures.push(fail("C06", rec.step, format!("request id {} is not larger than the earlier id {}", id, m), "id-not-fresh"));
                        }
                    }
                    if books[p].issued.contains_key(id) && wants("C06") {
                        failures.push(fail("C06", rec.step, format!("request id {} was already handed out", id), "id-repeated"));
                    }
                    books[p].issued.insert(*id, r.clone());
                    // "value visible at a call": every tag inside the arguments names a real invocation
                    let mut tags = vec![];
                    for a in &r.args { all_tags(a, &mut tags); }
                    for (tp, tid, tf) in tags {
                        let q = peers.iter().position(|n| *n == tp);
                        let ok = q.map(|q| net.hosts[q].log.iter().any(|(lid, lr, _)| *lid == tid && lr.function == tf)).unwrap_or(false);
                        if !ok && wants("C06") {
                            let key = if tf.starts_with("BOGUS") { "unrequested-result-visible" } else { "result-of-unknown-request-visible" };
                            failures.push(fail("C06", rec.step, format!("request {} ({}) carries a value tagged {}#{}#{} that no host produced under that id", id, r.function, tp, tid, tf), key));
                        }
                    }
                }
                for id in reqs.keys() {
                    books[p].max_issued = Some(books[p].max_issued.map(|m| m.max(*id)).unwrap_or(*id));
                }
                bump("requests", reqs.len() as u64, &mut stats);
            }
        }
        let new_data = o.panic.is_none() && !is_prev_code(o.code) && !o.data.is_empty();
        let decoded = if new_data { decode_data(&o.data).ok() } else { None };
        if let Some(d) = &decoded {
            if wants("C06") {
                if let Some(m) = books[p].max_issued {
                    if d.data.last_call_request_id < m {
                        failures.push(fail("C06", rec.step, format!("last call request id in the data is {} but {} was handed out", d.data.last_call_request_id, m), "lcid-behind"));
                    }
                }
            }
        }
        // ---- C06: leftovers are reported -----------------------------------------------
        if o.panic.is_none() && !is_prev_code(o.code) {
            if !unknown.is_empty() {
                bump("runs with unknown ids that returned new data", 1, &mut stats);
                if o.code == 0 && wants("C06") {
                    failures.push(fail("C06", rec.step, format!("results under ids {:?} match no pending call but the run reports success", unknown), "unknown-result-not-reported"));
                } else if o.code != 30000 && o.code != 0 {
                    bump("unknown ids dropped behind a catchable error", 1, &mut stats);
                    if wants("C06") {
                        failures.push(fail("C06", rec.step, format!("results under ids {:?} match no pending call; the run ends with code {} and does not report them", unknown, o.code),
                            "unprocessed-results-dropped-on-catchable-error"));
                    }
                } else if o.code == 30000 {
                    bump("30000 reported for unknown ids", 1, &mut stats);
                    for id in &unknown {
                        if !o.msg.contains(&format!("\"{}\"", id)) && wants("C06") {
                            failures.push(fail("C06", rec.step, format!("code 30000 but the message does not name the unprocessed id {}", id), "unprocessed-id-not-named"));
                        }
                    }
                }
            } else if o.code == 30000 {
                bump("30000 with only pending ids supplied", 1, &mut stats);
            }
        } else if !unknown.is_empty() || !sup.pending.is_empty() {
            bump("results handed to a failing run", 1, &mut stats);
        }

        // ---- the trace of this peer: who got which result ------------------------------
        if let Some(d) = &decoded {
            let ci = &d.data.cid_info;
            let mut tv = TraceView { pending: BTreeMap::new(), done: BTreeMap::new(), untagged: BTreeMap::new(), unused: BTreeMap::new() };
            for (pos, st) in d.data.trace.iter().enumerate() {
                let call = match st { ExecutedState::Call(c) => c, _ => continue };
                match call {
                    CallResult::RequestSentBy(Sender::PeerIdWithCallId { peer_id, call_id }) if peer_id.as_str() == me_id => {
                        *tv.pending.entry(*call_id).or_insert(0) += 1;
                    }
                    CallResult::Executed(ValueRef::Unused(vc)) => {
                        let k = vc.get_inner().to_string();
                        if books[p].bogus_cids.contains(&k) && wants("C06") {
                            failures.push(fail("C06", rec.step, format!("trace[{}]: a result supplied under an id that matched no pending call was applied (unused value {})", pos, k), "unrequested-result-applied"));
                        }
                        *tv.unused.entry(k).or_insert(0) += 1;
                    }
                    _ => {
                        let cid = match call.get_cid() { Some(c) => c, None => continue };
                        let sr = match ci.service_result_store.get(cid) { Some(s) => s, None => continue };
                        let t = match ci.tetraplet_store.get(&sr.tetraplet_cid) { Some(t) => t, None => continue };
                        if t.peer_pk != me_id { continue; }
                        let val = ci.value_store.get(&sr.value_cid).map(|v| jvalue_to_json(&v.get_value()));
                        let tag = val.as_ref().and_then(value_tag);
                        match tag {
                            Some((tp, tid, tf)) => {
                                if tf.starts_with("BOGUS") {
                                    if wants("C06") {
                                        failures.push(fail("C06", rec.step, format!("trace[{}]: the result supplied under id {} (which matched no pending call) was applied to the call {}", pos, tid, t.function_name), "unrequested-result-applied"));
                                    }
                                    continue;
                                }
                                let want_req = books[p].issued.get(&tid);
                                let ok = tp == me_name && tf == t.function_name
                                    && want_req.map(|r| r.function == t.function_name && r.service == t.service_id && arg_hash(&r.args) == sr.argument_hash.to_string()).unwrap_or(false);
                                if !ok && wants("C06") {
                                    failures.push(fail("C06", rec.step, format!("trace[{}]: the call {}.{} holds the result returned under id {} of {} for function {}", pos, t.service_id, t.function_name, tid, tp, tf), "result-applied-to-wrong-call"));
                                }
                                if tp == me_name {
                                    *tv.done.entry(tid).or_insert(0) += 1;
                                }
                            }
                            None => {
                                *tv.untagged.entry((t.function_name.clone(), sr.argument_hash.to_string())).or_insert(0) += 1;
                            }
                        }
                    }
                }
            }
            // results supplied for pending ids: consumed (state no longer pending) or reported
            for id in &sup.pending {
                let still = tv.pending.get(id).cloned().unwrap_or(0) > 0;
                if still {
                    bump("pending result not consumed", 1, &mut stats);
                    if o.code != 30000 {
                        let key = if o.code != 0 { "unprocessed-results-dropped-on-catchable-error" } else { "result-silently-dropped" };
                        for prop in ["C06", "C05"] {
                            if wants(prop) {
                                failures.push(fail(prop, rec.step, format!("the result handed back under the pending id {} was neither applied nor reported (code {})", id, o.code), key));
                            }
                        }
                    } else if wants("C05") {
                        let in_fold = books[p].issued.get(id).map(|r| stream_fold_sites.contains(&r.function)).unwrap_or(false);
                        let key = if in_fold { "stream-fold-cursor-hole-loses-call" } else { "result-not-consumed" };
                        failures.push(fail("C05", rec.step, format!("the result handed back under the pending id {} was not applied to its call (reported as unprocessed)", id), key));
                    }
                }
            }
            // C05: every id ever handed out is accounted for exactly once in the peer's own data
            if wants("C05") {
                let mut untagged_need: BTreeMap<(String, String), usize> = BTreeMap::new();
                for (id, req) in books[p].issued.iter() {
                    let pend = tv.pending.get(id).cloned().unwrap_or(0);
                    let mut done = tv.done.get(id).cloned().unwrap_or(0);
                    let ans = books[p].answered.get(id);
                    if let Some((code, _, tagged, vcid)) = ans {
                        if !*tagged {
                            if pend == 0 { *untagged_need.entry((req.function.clone(), arg_hash(&req.args))).or_insert(0) += 1; }
                            continue;
                        }
                        if *code == 0 {
                            if let Some(vc) = vcid { done += tv.unused.get(vc).cloned().unwrap_or(0); }
                        }
                    }
                    let total = pend + done;
                    if total == 1 { continue; }
                    let in_stream_fold = stream_fold_sites.contains(&req.function);
                    if total == 0 {
                        let (what, key) = if ans.is_some() { ("the recorded result of", "result-lost") } else { ("the pending request of", "request-forgotten") };
                        let key = if in_stream_fold { "stream-fold-cursor-hole-loses-call" } else { key };
                        failures.push(fail("C05", rec.step, format!("{} call id {} ({} {:?}) is no longer in the peer's own data", what, id, req.function, req.args), key));
                    } else {
                        let key = if in_stream_fold { "stream-fold-duplicate-state" } else { "duplicate-state" };
                        failures.push(fail("C05", rec.step, format!("call id {} ({}) has {} states in the peer's own data ({} pending, {} done)", id, req.function, total, pend, done), key));
                    }
                }
                for (k, need) in untagged_need.iter() {
                    let have = tv.untagged.get(k).cloned().unwrap_or(0);
                    // a no-output call leaves Unused(value cid): count those through the value cid
                    if have < *need {
                        let unused_total: usize = tv.unused.values().sum();
                        if have + unused_total < *need {
                            let key = if stream_fold_sites.contains(&k.0) { "stream-fold-cursor-hole-loses-call" } else { "result-lost" };
                            failures.push(fail("C05", rec.step, format!("{} answered call(s) of {} but {} recorded state(s)", need, k.0, have), key));
                        }
                    }
                }
            }
            bump("states attributed to the running peer", (tv.done.values().sum::<usize>() + tv.untagged.values().sum::<usize>()) as u64, &mut stats);
        }

        // ---- model lock-step -----------------------------------------------------------
        for (_, (_, text)) in rec.input.call_results.iter() {
            if let Ok(v) = serde_json::from_str::<JValue>(text) {
                if let Ok(cid) = value_to_json_cid(&v) {
                    dict.values.insert(cid.get_inner().to_string(), jvalue_to_json(&v));
                }
            }
        }
        if let Some(reqs) = &rec.out.requests {
            for (_, r) in reqs {
                dict.args.insert(arg_hash(&r.args), r.args.clone());
            }
        }
        let special = !unknown.is_empty() || (rec.out.code != 0);
        // at most half of the probes go to the "special" runs (unknown ids / non-zero code), the rest is periodic
        let periodic_here = (probe_every > 0 && rec.step % probe_every == 0) || probe_at.contains(&(rec.step as u64));
        let special_here = probe_special && special && special_probes < (probe_max + 1) / 2;
        let probe_here = match &probe_steps {
            Some(v) => v.contains(&(rec.step as u64)),
            None => periodic_here || special_here,
        };
        if probe_here && probe_steps.is_none() && !periodic_here { special_probes += 1; }
        if probe_here && (terms.len() < probe_max || probe_steps.is_some()) && (opi < scheduled || case["model_drain"].as_bool().unwrap_or(false)) {
            if let Some((t, cls, mut info)) = ecase_term(&rec, &dict) {
                info["unknown"] = json!(unknown.len());
                terms.push(t);
                classes.push(cls);
                infos.push(info);
            }
        } else {
            let cls = if rec.out.panic.is_some() { "panic".to_string() } else if is_prev_code(rec.out.code) { format!("prev:{}", rec.out.code) } else { format!("new:{}", rec.out.code) };
            *stats.entry(format!("unprobed {}", cls)).or_insert(0) += 1;
        }
    }

    // ---- C05 at quiescence: invocation log against the recorded states ----------------------
    let quiescent = net.inflight.is_empty() && net.hosts.iter().all(|h| h.pending.is_empty());
    if wants("C05") {
        if quiescent {
            for h in &net.hosts {
                for mut f in oracles::c05_final(net.step, &h.peer.id, &h.log, &h.prev) {
                    // the same loss seen through the log: keep the classification of the per-run oracle
                    let what = f["what"].as_str().unwrap_or("").to_string();
                    if stream_fold_sites.iter().any(|s| what.contains(s.as_str())) {
                        f["key"] = json!("stream-fold-cursor-hole-loses-call");
                    }
                    failures.push(f);
                }
            }
        }
        stats.insert("quiescent histories".into(), quiescent as u64);
    }
    let invocations: usize = net.hosts.iter().map(|h| h.log.len()).sum();
    let max_runs_one_peer = net.hosts.iter().map(|h| h.runs).max().unwrap_or(0);
    let bogus: usize = books.iter().map(|b| b.bogus_supplied).sum();
    stats.insert("bogus results supplied".into(), bogus as u64);
    json!({"script_term": script_term, "coq": terms, "classes": classes, "info": infos, "oracle_failures": failures,
           "runs": net.step, "invocations": invocations, "stats": stats, "max_runs_one_peer": max_runs_one_peer,
           "max_id": books.iter().filter_map(|b| b.max_issued).max()})
}

fn main() {
    quiet_panics();
    for line in std::io::stdin().lock().lines() {
        let line = match line { Ok(l) => l, Err(_) => break };
        if line.trim().is_empty() { continue; }
        let case: J = serde_json::from_str(&line).unwrap_or(J::Null);
        println!("{}", run_case(&case));
    }
}
