(* ValidatorCases.v -- C23: comparison of model/Validator.v with what the real parser did on one
   script text, and the property oracle evaluated on the implementation's observation alone.
   Terms of [case_t] are printed by harness/src/bin/validate.rs. *)
From Aqua Require Import Base Air Validator.
Open Scope N_scope.
Open Scope list_scope.

Record case_t := {
  c_panic : bool;              (* air_parser::parse (or the same AIRParser call) panicked on the text *)
  c_parse_ok : bool;           (* verdict of the real air_parser::parse *)
  c_tree : option (instr * stree);  (* tree + instruction spans from AIRParser::parse, when the LR driver returned a
                                  tree and the grammar actions pushed no recovery error *)
  c_same_tree : bool;          (* the tree `parse` returned prints like the one above *)
  c_grammar_errors : N;        (* recovery errors pushed by the grammar actions *)
  c_lr_ok : bool;              (* the LR driver returned Ok *)
  c_verrors : list vkind       (* kinds of the validator's errors (decoded from the report of `parse`) *)
}.

Fixpoint insert_n (x : N) (l : list N) : list N :=
  match l with [] => [x] | y :: r => if x <=? y then x :: l else y :: insert_n x r end.
Definition sort_n (l : list N) : list N := fold_right insert_n [] l.
Definition kinds_eqb (a b : list vkind) : bool :=
  list_eqb N.eqb (sort_n (map vkind_code a)) (sort_n (map vkind_code b)).
Definition is_nil {A} (l : list A) : bool := match l with [] => true | _ => false end.

(* correspondence: on every tree the real LR driver produced without recovery, the model validator
   reports the same multiset of error kinds as the real one, hence the same verdict; the tree has
   the layout the partial theorems assume *)
Definition check_case (c : case_t) : bool :=
  match c_tree c with
  | Some (t, s) =>
      wf_layout_b t s &&
      Nat.eqb (err_nodes t) 0 &&      (* no recovery error was pushed, so no action built an Error node *)
      match validate t s with
      | Some errs => kinds_eqb (map ve_kind errs) (c_verrors c) && Bool.eqb (c_parse_ok c) (is_nil errs)
      | None => false
      end
  | None => negb (c_parse_ok c)     (* an accepted script must come with its tree *)
  end.

(* ---- the property on the implementation's observation ---- *)
Definition c23_oracle (c : case_t) : bool :=
  negb (c_panic c) &&
  (if c_parse_ok c then
     match c_tree c with
     | Some (t, _) => c_same_tree c && Nat.eqb (err_nodes t) 0 && well_scoped_b t
     | None => false
     end
   else true).

(* ---- classes of failures (for the keys of known findings; anything unclassified stays a violation) ---- *)
Definition unvisited_site (s : use_site) : bool :=
  match s with UApMapValue | UCanonPeer | UFailArg | UErrorLens => true | _ => false end.
Definition enclosing_site (s : use_site) : bool :=
  match s with UMatchValue | UFoldIterable => true | _ => false end.
Definition pos_ltb_opt (a b : option pos) : bool :=
  match a, b with Some x, Some y => x <? y | _, _ => false end.

(* 3 iterator-used-outside-fold, 5 undefined-var-first-only-check, 6 unvisited-use-site, 7 unclassified *)
Definition use_violation_class (t : instr) (u : occurrence) : N :=
  if unvisited_site (o_site u) then 6
  else if existsb (fun f => String.eqb (fst f) (o_name u) &&
                            match o_pos u with Some p => sp_left (snd f) <? p | None => true end) (folds t) then 3
  else if enclosing_site (o_site u) &&
          existsb (fun v => String.eqb (o_name v) (o_name u) && negb (unvisited_site (o_site v)) &&
                            pos_ltb_opt (o_pos u) (o_pos v)) (uses t) then 5
  else 7.
(* 4 next-outside-fold-not-first, 8 unclassified *)
Definition next_violation_class (t : instr) (n : string * pos) : N :=
  if existsb (fun m => String.eqb (fst m) (fst n) && (snd m <? snd n)) (nexts t) then 4 else 8.

(* 0 panic, 1 error node in an accepted tree, 2 accepted without a (matching) tree *)
Definition violation_classes (c : case_t) : list N :=
  (if c_panic c then [0] else []) ++
  (if c_parse_ok c then
     match c_tree c with
     | Some (t, _) =>
         (if Nat.eqb (err_nodes t) 0 then [] else [1]) ++ (if c_same_tree c then [] else [2]) ++
         map (use_violation_class t) (filter (fun u => negb (use_scoped_b t u)) (uses t)) ++
         map (next_violation_class t) (filter (fun n => negb (next_scoped_b t n)) (nexts t))
     | None => [2]
     end
   else []).
Definition lacks (k : N) (c : case_t) : bool := negb (existsb (N.eqb k) (violation_classes c)).
