(* DetProofs.v -- proofs of the C20 statements of model/DetSpec.v. *)
From Coq Require Import Permutation Lia.
From Aqua Require Import Base Json JsonText Air Trace Handler Values Scalars Lens Exec RunExec ExecStreams DetSpec.
From Aqua Require Import JsonFacts.
From Aqua Require Stream.
Open Scope N_scope.
Open Scope list_scope.

(* ====================================================================================== *)
(* 1. catalogue *)
Lemma catalogue_closed_ok : catalogue_closed = true.
Proof. vm_compute. reflexivity. Qed.
Lemma no_external_sources_ok : no_external_sources = true.
Proof. vm_compute. reflexivity. Qed.
Lemma classified_findings_ok : classified_findings = ["canon-map-colliding-keys"%string].
Proof. vm_compute. reflexivity. Qed.

Lemma first_culprit_fixed_ok : first_culprit_fixed = true.
Proof. vm_compute. reflexivity. Qed.
Lemma message_only_sites_ok : length message_only_sites = 5%nat.
Proof. vm_compute. reflexivity. Qed.

(* ====================================================================================== *)
(* 2. dedup *)
Lemma existsb_eqb_in x l : existsb (String.eqb x) l = true <-> In x l.
Proof.
  rewrite existsb_exists. split.
  - intros [y [Hy He]]. apply String.eqb_eq in He. subst. exact Hy.
  - intro H. exists x. split; [exact H|apply String.eqb_refl].
Qed.

Lemma dedup_in l : forall seen x, In x (dedup l seen) <-> In x l /\ ~ In x seen.
Proof.
  induction l as [|a r IH]; intros seen x; cbn [dedup].
  - split; [intros []|intros [[] _]].
  - destruct (existsb (String.eqb a) seen) eqn:E.
    + apply existsb_eqb_in in E. rewrite IH. split.
      * intros [H1 H2]. split; [right; exact H1|exact H2].
      * intros [[->|H1] H2]; [contradiction|split; assumption].
    + assert (Hn : ~ In a seen) by (intro H; apply existsb_eqb_in in H; congruence).
      cbn [In]. rewrite IH. cbn [In]. split.
      * intros [->|[H1 H2]].
        -- split; [left; reflexivity|exact Hn].
        -- split; [right; exact H1|intro H; apply H2; right; exact H].
      * intros [[->|H1] H2]; [left; reflexivity|].
        destruct (String.eqb a x) eqn:Eax.
        -- apply String.eqb_eq in Eax. left. exact Eax.
        -- right. split; [exact H1|]. intros [->|H]; [rewrite String.eqb_refl in Eax; discriminate|contradiction].
Qed.

Lemma dedup_nodup l : forall seen, NoDup (dedup l seen).
Proof.
  induction l as [|a r IH]; intro seen; cbn [dedup]; [constructor|].
  destruct (existsb (String.eqb a) seen); [apply IH|].
  constructor; [|apply IH]. rewrite dedup_in. intros [_ H]. apply H. left. reflexivity.
Qed.

Theorem C20_dedup_order : C20_dedup_order_stmt.
Proof.
  intros o o' l Ho Ho'. unfold dedup_real, set_of. repeat split.
  - rewrite (Ho _). symmetry. apply Ho'.
  - apply (Permutation_NoDup (l := dedup l [])); [symmetry; apply Ho|apply dedup_nodup].
  - intro H. apply (Permutation_in _ (Ho _)) in H. apply dedup_in in H. apply H.
  - intro H. apply (Permutation_in _ (Permutation_sym (Ho _))). apply dedup_in. split; [exact H|intros []].
Qed.

(* ====================================================================================== *)
(* 3. compactify *)
Lemma Permutation_concat {A} (l l' : list (list A)) : Permutation l l' -> Permutation (concat l) (concat l').
Proof.
  induction 1; cbn [concat].
  - constructor.
  - apply Permutation_app_head. assumption.
  - rewrite !app_assoc. apply Permutation_app_tail. apply Permutation_app_comm.
  - etransitivity; eassumption.
Qed.

Section CompactProofs.
  Variable V : Type.
  Variable pos_of : V -> N.
  Notation streams := (Stream.streams V).
  Notation map_get := (Stream.map_get V).
  Notation map_insert := (Stream.map_insert V).
  Notation keys := (Stream.streams_keys V).
  Notation dcomp := (Stream.descriptors_compactify V pos_of).
  Notation scomp := (Stream.streams_compactify V pos_of).
  Notation kplan := (key_plan V pos_of).

  Lemma plan_seq_empty_l p : Stream.plan_seq plan_empty (fun _ => p) = p.
  Proof. destruct p. reflexivity. Qed.

  (* ---- plans_seq ---- *)
  Lemma plans_seq_crash ps :
    Stream.cp_crash (plans_seq ps) = None <-> Forall (fun p => Stream.cp_crash p = None) ps.
  Proof.
    induction ps as [|p t IH]; cbn [plans_seq].
    - split; [constructor|reflexivity].
    - unfold Stream.plan_seq. destruct (Stream.cp_crash p) eqn:E.
      + rewrite E. split; [discriminate|]. intro H. inversion H; congruence.
      + cbn [Stream.cp_crash]. rewrite IH. split.
        * intro H. constructor; assumption.
        * intro H. inversion H; assumption.
  Qed.
  Lemma plans_seq_updates ps : Forall (fun p => Stream.cp_crash p = None) ps ->
    Stream.cp_updates (plans_seq ps) = concat (map Stream.cp_updates ps).
  Proof.
    induction 1 as [|p t Hp Ht IH]; cbn [plans_seq map concat]; [reflexivity|].
    unfold Stream.plan_seq. rewrite Hp. cbn [Stream.cp_updates]. rewrite IH. reflexivity.
  Qed.
  Lemma Forall_perm {A} (P : A -> Prop) l l' : Permutation l l' -> Forall P l -> Forall P l'.
  Proof. intros HP H. rewrite Forall_forall in *. intros x Hx. apply H. apply (Permutation_in _ (Permutation_sym HP)). exact Hx. Qed.

  (* ---- association list facts ---- *)
  Lemma map_get_insert_other (m : streams) k k' d : k <> k' -> map_get (map_insert m k d) k' = map_get m k'.
  Proof.
    intro Hne. induction m as [|[a da] r IH]; cbn [Stream.map_insert Stream.map_get].
    - destruct (String.eqb k k') eqn:E; [apply String.eqb_eq in E; contradiction|reflexivity].
    - destruct (String.eqb a k) eqn:E1; cbn [Stream.map_get].
      + apply String.eqb_eq in E1. subst a.
        destruct (String.eqb k k') eqn:E; [apply String.eqb_eq in E; contradiction|reflexivity].
      + destruct (String.eqb a k'); [reflexivity|exact IH].
  Qed.
  Lemma keys_insert_present (m : streams) k d d' : map_get m k = Some d -> keys (map_insert m k d') = keys m.
  Proof.
    unfold Stream.streams_keys. induction m as [|[a da] r IH]; cbn [Stream.map_get Stream.map_insert map fst]; [discriminate|].
    destruct (String.eqb a k) eqn:E; cbn [map fst]; [reflexivity|]. intro H. rewrite (IH H). reflexivity.
  Qed.
  Lemma map_get_none_notin (m : streams) k : map_get m k = None -> ~ In k (keys m).
  Proof.
    unfold Stream.streams_keys. induction m as [|[a da] r IH]; cbn [Stream.map_get map fst In]; [tauto|].
    destruct (String.eqb a k) eqn:E; [discriminate|]. intros H [->|Hin]; [rewrite String.eqb_refl in E; discriminate|].
    exact (IH H Hin).
  Qed.
  Lemma map_get_some_in (m : streams) k d : map_get m k = Some d -> In k (keys m).
  Proof.
    unfold Stream.streams_keys. induction m as [|[a da] r IH]; cbn [Stream.map_get map fst In]; [discriminate|].
    destruct (String.eqb a k) eqn:E; [apply String.eqb_eq in E; left; exact E|]. intro H. right. exact (IH H).
  Qed.

  (* the map after processing the names of [order]: entry by entry *)
  Definition touched (order : list string) (kd : string * list (Stream.descriptor V)) :=
    if existsb (String.eqb (fst kd)) order then compact_entry V pos_of kd else kd.

  Lemma insert_as_map (m : streams) k d : NoDup (keys m) ->
    map_insert m k d = match map_get m k with
                       | Some _ => map (fun kd => if String.eqb (fst kd) k then (fst kd, d) else kd) m
                       | None => m ++ [(k, d)]
                       end.
  Proof.
    unfold Stream.streams_keys. induction m as [|[a da] r IH]; intro Hnd; cbn [Stream.map_insert Stream.map_get map fst app]; [reflexivity|].
    inversion Hnd as [|? ? Hnotin Hnd']; subst.
    destruct (String.eqb a k) eqn:E.
    - apply String.eqb_eq in E. subst a. f_equal.
      rewrite <- (map_id r) at 1. apply map_ext_in. intros [b db] Hin. cbn [fst].
      destruct (String.eqb b k) eqn:E2; [|reflexivity]. apply String.eqb_eq in E2. subst b.
      exfalso. apply Hnotin. apply (in_map fst) in Hin. exact Hin.
    - rewrite (IH Hnd'). destruct (Stream.map_get V r k); reflexivity.
  Qed.

  Lemma in_get (m : streams) k d : NoDup (keys m) -> In (k, d) m -> map_get m k = Some d.
  Proof.
    unfold Stream.streams_keys. induction m as [|[a da] r IH]; intros Hnd Hin; cbn [Stream.map_get]; [destruct Hin|].
    inversion Hnd as [|? ? Hnotin Hnd']; subst. destruct Hin as [Heq|Hin].
    - inversion Heq; subst. rewrite String.eqb_refl. reflexivity.
    - destruct (String.eqb a k) eqn:E.
      + apply String.eqb_eq in E. subst a. exfalso. apply Hnotin. apply (in_map fst) in Hin. exact Hin.
      + apply IH; assumption.
  Qed.

  Lemma scomp_char : forall order (m : streams), NoDup order -> NoDup (keys m) ->
    fst (scomp order m) = map (touched order) m /\
    snd (scomp order m) = plans_seq (map (kplan m) order).
  Proof.
    induction order as [|name t IH]; intros m Hord Hm; cbn [Stream.streams_compactify].
    - split; [|reflexivity]. cbn [fst]. rewrite <- (map_id m) at 1. apply map_ext. intros kd. reflexivity.
    - inversion Hord as [|? ? Hnotin Hord']; subst.
      destruct (Stream.map_get V m name) as [ds|] eqn:Eg.
      + destruct (dcomp ds) as [ds' pl] eqn:Ed.
        assert (Hm1 : NoDup (keys (map_insert m name ds'))) by (rewrite (keys_insert_present _ _ _ _ Eg); exact Hm).
        destruct (IH (map_insert m name ds') Hord' Hm1) as [IH1 IH2].
        destruct (scomp t (map_insert m name ds')) as [m' plt] eqn:Es. cbn [fst snd] in *. split.
        * rewrite IH1, (insert_as_map m name ds' Hm), Eg, map_map. apply map_ext_in. intros [k d] Hin.
          unfold touched. cbn [fst existsb].
          destruct (String.eqb k name) eqn:E.
          -- apply String.eqb_eq in E. subst k. cbn [fst].
             assert (Hex : existsb (String.eqb name) t = false).
             { destruct (existsb (String.eqb name) t) eqn:Ex; [|reflexivity]. apply existsb_eqb_in in Ex. contradiction. }
             rewrite Hex. cbn [orb]. unfold compact_entry. cbn [fst snd].
             rewrite (in_get m name d Hm Hin) in Eg. inversion Eg; subst. rewrite Ed. reflexivity.
          -- cbn [fst orb]. reflexivity.
        * cbn [map plans_seq]. unfold key_plan at 1. rewrite Eg, Ed. cbn [snd]. f_equal.
          apply (f_equal (fun p => fun _ : unit => p)). rewrite IH2. f_equal. apply map_ext_in. intros k Hk.
          unfold key_plan. rewrite map_get_insert_other; [reflexivity|]. intro; subst. contradiction.
      + destruct (IH m Hord' Hm) as [IH1 IH2]. split.
        * rewrite IH1. apply map_ext_in. intros [k d] Hin. unfold touched. cbn [fst existsb].
          destruct (String.eqb k name) eqn:E; [|reflexivity].
          apply String.eqb_eq in E. subst k. exfalso. apply (map_get_none_notin _ _ Eg).
          apply (in_map fst) in Hin. exact Hin.
        * cbn [map plans_seq]. unfold key_plan at 1. rewrite Eg, plan_seq_empty_l. exact IH2.
  Qed.

  Lemma all_updates_as_keys (m : streams) : NoDup (keys m) ->
    all_updates V pos_of m = concat (map Stream.cp_updates (map (kplan m) (keys m))).
  Proof.
    intro Hnd. unfold all_updates, Stream.streams_keys. rewrite !map_map. f_equal. apply map_ext_in. intros [k d] Hin.
    cbn [fst snd]. unfold key_plan. rewrite (in_get m k d Hnd Hin). reflexivity.
  Qed.

  Theorem C20_compactify_order : C20_compactify_order_stmt V pos_of.
  Proof.
    intros m order order' Hm Ho Ho'. cbv zeta.
    assert (Hnd : NoDup order) by (apply (Permutation_NoDup (Permutation_sym Ho)); exact Hm).
    assert (Hnd' : NoDup order') by (apply (Permutation_NoDup (Permutation_sym Ho')); exact Hm).
    destruct (scomp_char order m Hnd Hm) as [F1 S1]. destruct (scomp_char order' m Hnd' Hm) as [F2 S2].
    assert (Hall : forall ord, Permutation ord (keys m) -> map (touched ord) m = compact_map V pos_of m).
    { intros ord Hp. apply map_ext_in. intros [k d] Hin. unfold touched. cbn [fst].
      assert (Hex : existsb (String.eqb k) ord = true).
      { apply existsb_eqb_in. apply (Permutation_in _ (Permutation_sym Hp)). apply (in_map fst) in Hin. exact Hin. }
      rewrite Hex. reflexivity. }
    assert (Hpp : Permutation (map (kplan m) order) (map (kplan m) order')).
    { apply Permutation_map. rewrite Ho. symmetry. exact Ho'. }
    assert (Hpk : Permutation (map (kplan m) order) (map (kplan m) (keys m))) by (apply Permutation_map; exact Ho).
    split; [rewrite F1; apply Hall; exact Ho|]. split; [rewrite F2; apply Hall; exact Ho'|]. split.
    - rewrite S1, S2, !plans_seq_crash. split; apply Forall_perm; [exact Hpp|symmetry; exact Hpp].
    - intro Hc. rewrite S1 in Hc. apply plans_seq_crash in Hc.
      rewrite S1, S2, (plans_seq_updates _ Hc), (plans_seq_updates _ (Forall_perm _ _ _ Hpp Hc)). split.
      + apply Permutation_concat. apply Permutation_map. exact Hpp.
      + rewrite (all_updates_as_keys m Hm). apply Permutation_concat. apply Permutation_map. exact Hpk.
  Qed.

  (* ---- applying the updates ---- *)
  Section Apply.
    Variables H E : Type.
    Variable upd : H -> N -> N -> H + E.
    Notation seq := (sum_equiv H E).
    Notation apply := (Stream.apply_updates upd).

    Lemma sum_equiv_refl a : seq a a.
    Proof. destruct a; cbn; auto. Qed.
    Lemma sum_equiv_trans a b c : seq a b -> seq b c -> seq a c.
    Proof. destruct a, b, c; cbn; intros; subst; auto; contradiction. Qed.

    Theorem C20_apply_updates_order : C20_apply_updates_order_stmt H E upd.
    Proof.
      intros Hcomm ups ups' HP. induction HP as [|[p g] l l' HP IH|[p g] [q g'] l|l1 l2 l3 HP1 IH1 HP2 IH2]; intros Hnd h.
      - apply sum_equiv_refl.
      - cbn [Stream.apply_updates]. cbn [map fst] in Hnd. inversion Hnd; subst.
        destruct (upd h p g); [apply IH; assumption|exact I].
      - cbn [map fst] in Hnd. inversion Hnd as [|? ? Hn1 Hnd1]; subst.
        assert (Hne : q <> p) by (intro; subst; apply Hn1; left; reflexivity).
        specialize (Hcomm h p g q g' (fun e => Hne (eq_sym e))). unfold two_updates in Hcomm.
        cbn [Stream.apply_updates].
        destruct (upd h p g) as [h1|e1]; destruct (upd h q g') as [h2|e2]; cbn in *.
        + destruct (upd h1 q g') as [h12|]; destruct (upd h2 p g) as [h21|]; cbn in Hcomm; try contradiction.
          * subst. apply sum_equiv_refl.
          * exact I.
        + destruct (upd h1 q g'); cbn in Hcomm; [contradiction|exact I].
        + destruct (upd h2 p g); cbn in Hcomm; [contradiction|exact I].
        + exact I.
      - apply (sum_equiv_trans _ (apply h l2)); [apply IH1; exact Hnd|].
        apply IH2. apply (Permutation_NoDup (l := map fst l1)); [apply Permutation_map; exact HP1|exact Hnd].
    Qed.
  End Apply.
End CompactProofs.

(* ---- the model's TraceHandler::update_generation commutes at different positions ---- *)
Lemma set_nth_length {A} (l : list A) : forall n x, length (set_nth l n x) = length l.
Proof. induction l as [|y r IH]; intros [|n] x; cbn [set_nth length]; try reflexivity. rewrite IH. reflexivity. Qed.
Lemma nth_error_set_nth_other {A} (l : list A) : forall n m x, n <> m -> nth_error (set_nth l n x) m = nth_error l m.
Proof.
  induction l as [|y r IH]; intros [|n] [|m] x Hne; cbn [set_nth nth_error]; try reflexivity; try congruence.
  apply IH. congruence.
Qed.
Lemma set_nth_comm {A} (l : list A) : forall n m x y, n <> m -> set_nth (set_nth l n x) m y = set_nth (set_nth l m y) n x.
Proof.
  induction l as [|z r IH]; intros [|n] [|m] x y Hne; cbn [set_nth]; try reflexivity; try congruence.
  f_equal. apply IH. congruence.
Qed.
Lemma nth_N_set_nth_other {A} (l : list A) p q x : p <> q -> Trace.nth_N (set_nth l (N.to_nat p) x) q = Trace.nth_N l q.
Proof.
  intro Hne. unfold Trace.nth_N. rewrite set_nth_length. destruct (q <? N.of_nat (length l)); [|reflexivity].
  apply nth_error_set_nth_other. intro H. apply Hne. apply N2Nat.inj. exact H.
Qed.

(* the new state update_generation writes at a position, if the state there admits it *)
Definition regen (st : state cid) (g : N) : option (state cid) :=
  match st with
  | SAp _ => Some (SAp [g])
  | SCall (Executed (VRStream c _)) => Some (SCall (Executed (VRStream c g)))
  | _ => None
  end.
Lemma upd_gen_as_regen h p g :
  upd_gen h p g =
  match Trace.nth_N (k_result cid (h_keeper cid h)) p with
  | None => inr PointsToNowhere
  | Some st => match regen st g with
               | Some st' => inl (with_keeper cid h (with_result cid (h_keeper cid h)
                                    (set_nth (k_result cid (h_keeper cid h)) (N.to_nat p) st')))
               | None => inr PointsToInvalidState
               end
  end.
Proof.
  unfold upd_gen, update_generation. destruct (Trace.nth_N (k_result cid (h_keeper cid h)) p) as [st|]; [|reflexivity].
  destruct st as [| c | | |]; try reflexivity. destruct c as [|v|]; try reflexivity. destruct v; reflexivity.
Qed.

Theorem C20_update_generation_commutes : C20_update_generation_commutes_stmt.
Proof.
  intros h p g q g' Hne. unfold two_updates. rewrite !upd_gen_as_regen.
  set (tr := k_result cid (h_keeper cid h)).
  destruct (Trace.nth_N tr p) as [sp|] eqn:Ep; destruct (Trace.nth_N tr q) as [sq|] eqn:Eq.
  - destruct (regen sp g) as [sp'|] eqn:Rp; destruct (regen sq g') as [sq'|] eqn:Rq.
    + rewrite !upd_gen_as_regen. cbn [h_keeper with_keeper k_result with_result]. fold tr.
      rewrite (nth_N_set_nth_other tr p q sp' Hne), Eq, Rq.
      rewrite (nth_N_set_nth_other tr q p sq' (fun e => Hne (eq_sym e))), Ep, Rp.
      cbn. unfold with_keeper, with_result. cbn. f_equal. f_equal.
      apply set_nth_comm. intro H. apply Hne. apply N2Nat.inj. exact H.
    + rewrite upd_gen_as_regen. cbn [h_keeper with_keeper k_result with_result]. fold tr.
      rewrite (nth_N_set_nth_other tr p q sp' Hne), Eq, Rq. exact I.
    + rewrite upd_gen_as_regen. cbn [h_keeper with_keeper k_result with_result]. fold tr.
      rewrite (nth_N_set_nth_other tr q p sq' (fun e => Hne (eq_sym e))), Ep, Rp. exact I.
    + exact I.
  - destruct (regen sp g) as [sp'|] eqn:Rp; [|exact I].
    rewrite upd_gen_as_regen. cbn [h_keeper with_keeper k_result with_result]. fold tr.
    rewrite (nth_N_set_nth_other tr p q sp' Hne), Eq. exact I.
  - destruct (regen sq g') as [sq'|] eqn:Rq; [|exact I].
    rewrite upd_gen_as_regen. cbn [h_keeper with_keeper k_result with_result]. fold tr.
    rewrite (nth_N_set_nth_other tr q p sq' (fun e => Hne (eq_sym e))), Ep. exact I.
  - exact I.
Qed.

(* ---- finish_streams ---- *)
Lemma run_plan_ok_iff (h : handler cid) (pl : Stream.compact_plan) h' :
  Stream.run_plan upd_gen h pl = Stream.CompactOk h' <->
  Stream.cp_crash pl = None /\ Stream.apply_updates upd_gen h (Stream.cp_updates pl) = inl h'.
Proof.
  unfold Stream.run_plan. destruct (Stream.apply_updates upd_gen h (Stream.cp_updates pl)) as [h1|e].
  - destruct (Stream.cp_crash pl); split; try discriminate.
    + intros [H _]. discriminate.
    + intro H. inversion H. split; reflexivity.
    + intros [_ H]. inversion H. reflexivity.
  - split; [discriminate|]. intros [_ H]. discriminate.
Qed.

(* compactify_table_ord answers XOk exactly when the plan runs through *)
Lemma table_ord_cases order t x :
  let r := Stream.streams_compactify vagg va_pos (order (Stream.streams_keys vagg (table_of t x))) (table_of t x) in
  match Stream.run_plan upd_gen (x_handler (with_table t x (fst r))) (snd r) with
  | Stream.CompactOk h => compactify_table_ord order t x = XOk (set_handler (with_table t x (fst r)) h)
  | _ => forall y, compactify_table_ord order t x <> XOk y
  end.
Proof.
  cbv zeta. unfold compactify_table_ord, run_compact_plan, upd_gen.
  destruct (Stream.streams_compactify vagg va_pos (order (Stream.streams_keys vagg (table_of t x))) (table_of t x)) as [m pl].
  cbn [fst snd]. destruct (Stream.run_plan (update_generation cid) (x_handler (with_table t x m)) pl); try reflexivity;
    intros y H; discriminate.
Qed.

Theorem C20_compactify_table_order : C20_compactify_table_order_stmt.
Proof.
  assert (Hhalf : forall o o' t x, is_perm o -> is_perm o' -> table_ok t x ->
            forall y, compactify_table_ord o t x = XOk y -> compactify_table_ord o' t x = XOk y).
  { intros o o' t x Ho Ho' [Hk Hp] y Hy.
    pose proof (C20_compactify_order vagg va_pos (table_of t x) _ _ Hk (Ho _) (Ho' _)) as HC. cbv zeta in HC.
    destruct HC as [F1 [F2 [Hcr Hup]]].
    pose proof (table_ord_cases o t x) as C1. pose proof (table_ord_cases o' t x) as C2. cbv zeta in C1, C2.
    set (r := Stream.streams_compactify vagg va_pos (o (Stream.streams_keys vagg (table_of t x))) (table_of t x)) in *.
    set (r' := Stream.streams_compactify vagg va_pos (o' (Stream.streams_keys vagg (table_of t x))) (table_of t x)) in *.
    rewrite F1 in C1. rewrite F2 in C2.
    set (x1 := with_table t x (compact_map vagg va_pos (table_of t x))) in *.
    destruct (Stream.run_plan upd_gen (x_handler x1) (snd r)) as [h| |] eqn:E1; try (exfalso; apply (C1 y); exact Hy).
    rewrite C1 in Hy. inversion Hy; subst y. clear Hy.
    apply run_plan_ok_iff in E1. destruct E1 as [Hc Ha]. destruct (Hup Hc) as [Hpp Hall].
    assert (E2 : Stream.run_plan upd_gen (x_handler x1) (snd r') = Stream.CompactOk h).
    { apply run_plan_ok_iff. split; [apply Hcr; exact Hc|].
      pose proof (C20_apply_updates_order (handler cid) gen_err upd_gen C20_update_generation_commutes _ _ Hpp) as Hq.
      assert (Hnd : NoDup (map fst (Stream.cp_updates (snd r)))).
      { apply (Permutation_NoDup (l := map fst (all_updates vagg va_pos (table_of t x)))); [|exact Hp].
        apply Permutation_map. symmetry. exact Hall. }
      specialize (Hq Hnd (x_handler x1)). rewrite Ha in Hq. unfold sum_equiv in Hq.
      destruct (Stream.apply_updates upd_gen (x_handler x1) (Stream.cp_updates (snd r'))); [subst; reflexivity|contradiction]. }
    rewrite E2 in C2. exact C2. }
  intros o o' t x Ho Ho' Hok y. split; apply Hhalf; assumption.
Qed.

(* what is left of a table run for the farewell step *)
Definition xres_fin (r : xres) : ctx + uncatchable :=
  match r with XOk y => inl y | XErr (EUncatch u) _ => inr u | _ => inr UGenerationCompactificationError end.
Lemma table_ord_fin order t x :
  (exists y, compactify_table_ord order t x = XOk y) \/ xres_fin (compactify_table_ord order t x) = inr UGenerationCompactificationError.
Proof.
  unfold compactify_table_ord, run_compact_plan.
  destruct (Stream.streams_compactify vagg va_pos (order (Stream.streams_keys vagg (table_of t x))) (table_of t x)) as [m pl].
  destruct (Stream.run_plan (update_generation cid) (x_handler (with_table t x m)) pl); [left; eexists; reflexivity|right; reflexivity|right; reflexivity].
Qed.
Lemma table_ord_fin_eq o o' t x : is_perm o -> is_perm o' -> table_ok t x ->
  xres_fin (compactify_table_ord o t x) = xres_fin (compactify_table_ord o' t x).
Proof.
  intros Ho Ho' Hok.
  destruct (table_ord_fin o t x) as [[y Hy]|H1].
  - rewrite Hy. rewrite (proj1 (C20_compactify_table_order o o' t x Ho Ho' Hok y) Hy). reflexivity.
  - destruct (table_ord_fin o' t x) as [[y Hy]|H2]; [|rewrite H1, H2; reflexivity].
    rewrite (proj2 (C20_compactify_table_order o o' t x Ho Ho' Hok y) Hy) in H1. discriminate.
Qed.
Lemma finish_as_fin os om x :
  finish_streams_ord os om x =
  match compactify_table_ord os TStreams x with
  | XOk y => xres_fin (compactify_table_ord om TMaps y)
  | r => xres_fin r
  end.
Proof. unfold finish_streams_ord, xres_fin. destruct (compactify_table_ord os TStreams x) as [y|e y| | |]; reflexivity. Qed.

(* the first table run leaves the other table alone *)
Lemma streams_run_keeps_maps o x y : compactify_table_ord o TStreams x = XOk y -> table_of TMaps y = table_of TMaps x.
Proof.
  unfold compactify_table_ord, run_compact_plan.
  destruct (Stream.streams_compactify vagg va_pos (o (Stream.streams_keys vagg (table_of TStreams x))) (table_of TStreams x)) as [m pl].
  destruct (Stream.run_plan (update_generation cid) (x_handler (with_table TStreams x m)) pl); try discriminate.
  intros [= <-]. reflexivity.
Qed.

Theorem C20_finish_streams_order : C20_finish_streams_order_stmt.
Proof.
  intros os os' om om' x Hs Hs' Hm Hm' [Hok1 Hok2]. rewrite !finish_as_fin.
  destruct (table_ord_fin os TStreams x) as [[y Hy]|H1].
  - rewrite Hy, (proj1 (C20_compactify_table_order os os' TStreams x Hs Hs' Hok1 y) Hy).
    apply table_ord_fin_eq; [exact Hm|exact Hm'|].
    unfold table_ok. rewrite (streams_run_keeps_maps os x y Hy). exact Hok2.
  - pose proof (table_ord_fin_eq os os' TStreams x Hs Hs' Hok1) as He.
    destruct (compactify_table_ord os TStreams x) as [y|e y| | |] eqn:E1; [discriminate H1| | | |];
      (destruct (compactify_table_ord os' TStreams x) as [y'|e' y'| | |] eqn:E2; [rewrite H1 in He; discriminate He|exact He..]).
Qed.

Theorem C20_finish_streams_tie : C20_finish_streams_tie_stmt.
Proof. intro x. reflexivity. Qed.

(* ====================================================================================== *)
(* 4. CID stores *)
Section CidInd.
  Variable P : cid -> Prop.
  Hypothesis HV : forall j, P (CValue j).
  Hypothesis HT : forall t, P (CTetraplet t).
  Hypothesis HA : forall a, P (CArgs a).
  Hypothesis HS : forall a b c, P a -> P b -> P c -> P (CService a b c).
  Hypothesis HEn : forall a b, P a -> P b -> P (CCanonElem a b None).
  Hypothesis HEs : forall a b k c, P a -> P b -> P c -> P (CCanonElem a b (Some (k, c))).
  Hypothesis HR : forall t vs, P t -> Forall P vs -> P (CCanonResult t vs).
  Hypothesis HO : forall s, P (COpaque s).
  Fixpoint cid_ind' (c : cid) : P c :=
    match c with
    | CValue j => HV j
    | CTetraplet t => HT t
    | CArgs a => HA a
    | CService a b c' => HS a b c' (cid_ind' a) (cid_ind' b) (cid_ind' c')
    | CCanonElem a b p =>
        match p as p0 return P (CCanonElem a b p0) with
        | None => HEn a b (cid_ind' a) (cid_ind' b)
        | Some pc => match pc as pc0 return P (CCanonElem a b (Some pc0)) with
                     | (k, c') => HEs a b k c' (cid_ind' a) (cid_ind' b) (cid_ind' c')
                     end
        end
    | CCanonResult t vs =>
        HR t vs (cid_ind' t)
           ((fix go (l : list cid) : Forall P l :=
               match l with [] => Forall_nil P | x :: r => Forall_cons x (cid_ind' x) (go r) end) vs)
    | COpaque s => HO s
    end.
End CidInd.

Lemma tetraplet_eqb_eq a b : tetraplet_eqb a b = true <-> a = b.
Proof.
  destruct a, b. unfold tetraplet_eqb. cbn.
  rewrite !andb_true_iff, !String.eqb_eq. split.
  - intros [[[-> ->] ->] ->]. reflexivity.
  - intros [= -> -> -> ->]. repeat split.
Qed.

Lemma cid_eqb_result t vs t' vs' :
  cid_eqb (CCanonResult t vs) (CCanonResult t' vs') = cid_eqb t t' && list_eqb cid_eqb vs vs'.
Proof.
  cbn [cid_eqb]. f_equal. revert vs'. induction vs as [|x r IH]; intros [|y r']; cbn [list_eqb]; try reflexivity.
  rewrite IH. reflexivity.
Qed.

Theorem cid_eqb_eq : forall a b, cid_eqb a b = true <-> a = b.
Proof.
  induction a as [j|t|args|a1 a2 a3 IH1 IH2 IH3|a1 a2 IH1 IH2|a1 a2 k c IH1 IH2 IH3|t vs IHt IHvs|s] using cid_ind'; intro b.
  - destruct b; cbn [cid_eqb]; try (split; congruence). rewrite json_eqb_eq. split; congruence.
  - destruct b; cbn [cid_eqb]; try (split; congruence). rewrite tetraplet_eqb_eq. split; congruence.
  - destruct b as [| |args'| | | |]; cbn [cid_eqb]; try (split; congruence).
    rewrite (list_eqb_eq json_eqb args); [split; congruence|].
    rewrite Forall_forall. intros x _ y. apply json_eqb_eq.
  - destruct b as [| | |b1 b2 b3| | |]; cbn [cid_eqb]; try (split; congruence).
    rewrite !andb_true_iff, IH1, IH2, IH3. split; [intros [[-> ->] ->]; reflexivity|intros [= -> -> ->]; repeat split].
  - destruct b as [| | | |b1 b2 bp| |]; cbn [cid_eqb]; try (split; congruence).
    destruct bp as [[k' c']|]; rewrite !andb_true_iff, IH1, IH2.
    + split; [intros [_ H]; discriminate|intros [=]].
    + split; [intros [[-> ->] _]; reflexivity|intros [= -> ->]; repeat split].
  - destruct b as [| | | |b1 b2 bp| |]; cbn [cid_eqb]; try (split; congruence).
    destruct bp as [[k' c']|]; rewrite !andb_true_iff, IH1, IH2.
    + rewrite IH3, Bool.eqb_true_iff.
      split; [intros [[-> ->] [-> ->]]; reflexivity|intros [= -> -> -> ->]; repeat split].
    + split; [intros [_ H]; discriminate|intros [=]].
  - destruct b as [| | | | |t' vs'|]; try (cbn [cid_eqb]; split; congruence).
    rewrite cid_eqb_result, andb_true_iff, IHt, (list_eqb_eq cid_eqb vs IHvs).
    split; [intros [-> ->]; reflexivity|intros [= -> ->]; split; reflexivity].
  - destruct b; cbn [cid_eqb]; try (split; congruence). rewrite String.eqb_eq. split; congruence.
Qed.

Lemma cid_mem_in c l : cid_mem c l = true <-> In c l.
Proof.
  unfold cid_mem. rewrite existsb_exists. split.
  - intros [y [Hy He]]. apply cid_eqb_eq in He. subst. exact Hy.
  - intro H. exists c. split; [exact H|apply cid_eqb_eq; reflexivity].
Qed.

Lemma cid_track_in c x l : In c (cid_track x l) <-> In c l \/ c = x.
Proof.
  unfold cid_track. destruct (cid_mem x l) eqn:E.
  - apply cid_mem_in in E. split; [intro H; left; exact H|intros [H | ->]; assumption].
  - rewrite in_app_iff. cbn [In]. split; [intros [H|[<-|[]]]; [left; exact H|right; reflexivity]|intros [H | ->]; [left; exact H|right; left; reflexivity]].
Qed.
Lemma NoDup_app_single {A} (x : A) l : NoDup l -> ~ In x l -> NoDup (l ++ [x]).
Proof.
  induction 1 as [|y r Hy Hr IH]; intro Hn; cbn [app]; [constructor; [intros []|constructor]|].
  constructor.
  - rewrite in_app_iff. cbn [In]. intros [H|[<-|[]]]; [contradiction|apply Hn; left; reflexivity].
  - apply IH. intro H. apply Hn. right. exact H.
Qed.
Lemma cid_track_nodup x l : NoDup l -> NoDup (cid_track x l).
Proof.
  intro Hnd. unfold cid_track. destruct (cid_mem x l) eqn:E; [exact Hnd|].
  assert (Hn : ~ In x l) by (intro H; apply cid_mem_in in H; congruence).
  apply NoDup_app_single; assumption.
Qed.

Lemma union_cids_in b : forall a c, In c (union_cids a b) <-> In c a \/ In c b.
Proof.
  unfold union_cids. induction b as [|x r IH]; intros a c; cbn [fold_left In]; [tauto|].
  rewrite IH, cid_track_in. split; [intros [[H | ->]|H]; auto|intros [H|[<-|H]]; auto].
Qed.
Lemma union_cids_nodup b : forall a, NoDup a -> NoDup (union_cids a b).
Proof.
  unfold union_cids. induction b as [|x r IH]; intros a Ha; cbn [fold_left]; [exact Ha|].
  apply IH. apply cid_track_nodup. exact Ha.
Qed.

Theorem C20_stores_order : C20_stores_order_stmt.
Proof.
  intros a a' b b' Ha Pa Pb. repeat split.
  - apply NoDup_Permutation.
    + apply union_cids_nodup. exact Ha.
    + apply union_cids_nodup. apply (Permutation_NoDup Pa). exact Ha.
    + intro c. rewrite !union_cids_in. split; intros [H|H].
      * left. apply (Permutation_in _ Pa). exact H.
      * right. apply (Permutation_in _ Pb). exact H.
      * left. apply (Permutation_in _ (Permutation_sym Pa)). exact H.
      * right. apply (Permutation_in _ (Permutation_sym Pb)). exact H.
  - apply union_cids_nodup. exact Ha.
  - apply union_cids_in.
  - apply union_cids_in.
Qed.

Theorem C20_merge_cid_states_order : C20_merge_cid_states_order_stmt.
Proof.
  intros p p' c c' [N1 [N2 [N3 [N4 N5]]]] [P1 [P2 [P3 [P4 P5]]]] [Q1 [Q2 [Q3 [Q4 Q5]]]].
  unfold merge_cid_states, cid_state_equiv, cid_state_nodup. cbn.
  repeat split; try (apply C20_stores_order; assumption); apply union_cids_nodup; assumption.
Qed.

(* ====================================================================================== *)
(* 5. canon map rendering *)
Theorem C20_canon_map_order : C20_canon_map_order_stmt.
Proof.
  intros o o' groups Ho Ho' Hk. unfold as_jvalue.
  set (f := fun kv : map_key * list json => (to_key (fst kv), JArr (snd kv))).
  assert (HP : Permutation (map f (o groups)) (map f (o' groups))).
  { apply Permutation_map. rewrite (Ho groups). symmetry. apply Ho'. }
  apply jobj_of_perm; [exact HP|].
  rewrite map_map. cbn [fst].
  apply (Permutation_NoDup (l := map (fun kv => to_key (fst kv)) groups)); [|exact Hk].
  apply Permutation_map. symmetry. apply Ho.
Qed.

Lemma rev_is_perm {A} : is_perm (@rev A).
Proof. intro l. symmetry. apply Permutation_rev. Qed.
Lemma id_is_perm {A} : is_perm (@id_order A).
Proof. intro l. reflexivity. Qed.

Theorem C20_canon_map_refuted : C20_canon_map_refuted_stmt.
Proof.
  exists id_order, (@rev _), [(KInt 42, [JStr "int"]); (KStr "42", [JStr "str"])].
  split; [apply id_is_perm|]. split; [apply rev_is_perm|]. split.
  - constructor; [intros [H|[]]; discriminate|]. constructor; [intros []|constructor].
  - vm_compute. discriminate.
Qed.
Theorem C20_canon_map_full_refuted : ~ C20_canon_map_full.
Proof.
  intro H. destruct C20_canon_map_refuted as [o [o' [g [Ho [Ho' [Hnd Hne]]]]]]. apply Hne. apply H; assumption.
Qed.

(* ====================================================================================== *)
(* 6. the 30000 message *)
Lemma farewell_sorted_ok : farewell_unprocessed_sorted = true.
Proof. reflexivity. Qed.

Lemma sorted_texts_perm r r' : Permutation r r' -> NoDup (map fst r) -> sorted_texts r = sorted_texts r'.
Proof.
  intros HP Hnd. unfold sorted_texts.
  match goal with |- match ?a with _ => _ end = match ?b with _ => _ end => replace b with a; [reflexivity|] end.
  apply jobj_of_perm; [apply Permutation_map; exact HP|].
  rewrite map_map. cbn [fst]. exact Hnd.
Qed.

Theorem C20_message_order : C20_message_order_stmt.
Proof.
  intros o o' r Ho Ho' Hnd. unfold unprocessed_msg. rewrite farewell_sorted_ok. do 2 f_equal.
  rewrite (sorted_texts_perm (o r) r (Ho r)), (sorted_texts_perm (o' r) r (Ho' r)); [reflexivity| |].
  - apply (Permutation_NoDup (l := map fst r)); [|exact Hnd]. apply Permutation_map. symmetry. apply Ho'.
  - apply (Permutation_NoDup (l := map fst r)); [|exact Hnd]. apply Permutation_map. symmetry. apply Ho.
Qed.

(* ====================================================================================== *)
(* 7. the run *)
Lemma run_finish_ext fin fin' fuel i :
  (forall x, end_ctx (exec stream_instr fuel (ri_script i) (initial_ctx i)) = Some x -> fin x = fin' x) ->
  run stream_instr fin fuel i = run stream_instr fin' fuel i.
Proof.
  intro H. unfold run. destruct (exec stream_instr fuel (ri_script i) (initial_ctx i)) as [x|e x| | |] eqn:E; try reflexivity.
  - rewrite (H x eq_refl). reflexivity.
  - destruct e as [c|u]; [|reflexivity]. rewrite (H x eq_refl). reflexivity.
Qed.

Lemma run_next_nodup fin fuel i c d n r s : run stream_instr fin fuel i = OutNewData c d n r s -> NoDup n.
Proof.
  unfold run. destruct (exec stream_instr fuel (ri_script i) (initial_ctx i)) as [x|e x| | |]; try discriminate.
  - destruct (fin x); [|discriminate]. intros [= _ _ <- _ _]. apply dedup_nodup.
  - destruct e as [ce|u]; [|discriminate]. destruct (fin x); [|discriminate]. intros [= _ _ <- _ _]. apply dedup_nodup.
Qed.

Theorem C20_order_irrelevant : C20_order_irrelevant_stmt.
Proof.
  intros o o' fuel i [Hs [Hm Hn]] [Hs' [Hm' Hn']] Hok. unfold run_det.
  rewrite (run_finish_ext (finish_streams_ord (o_streams o) (o_stream_maps o)) (finish_streams_ord (o_streams o') (o_stream_maps o')) fuel i).
  2:{ intros x Hx. apply C20_finish_streams_order; try assumption. apply Hok; exact Hx. }
  destruct (run stream_instr (finish_streams_ord (o_streams o') (o_stream_maps o')) fuel i) as [c d n r s| | | |] eqn:E; cbn [reorder_next outcome_equiv]; try reflexivity.
  pose proof (run_next_nodup _ _ _ _ _ _ _ _ E) as Hnd.
  repeat split.
  - rewrite (Hn n). symmetry. apply Hn'.
  - apply (Permutation_NoDup (l := n)); [symmetry; apply Hn|exact Hnd].
  - apply (Permutation_NoDup (l := n)); [symmetry; apply Hn'|exact Hnd].
Qed.

Theorem C20_function : C20_function_stmt.
Proof.
  split.
  - intros fuel i. unfold run_det, id_orders, run2. cbn [o_streams o_stream_maps o_next].
    rewrite (run_finish_ext (finish_streams_ord id_order id_order) finish_streams fuel i); [|intros x _; apply C20_finish_streams_tie].
    destruct (run stream_instr finish_streams fuel i); reflexivity.
  - intros o fuel i i' ->. reflexivity.
Qed.
