#!/usr/bin/env python3
"""tools/seed_meta.py <seeded-id> <detected: yes|no> <verdict line> [extra notes]  -- writes seeded/<id>/meta.json"""
import json, os, sys, subprocess
sid, det, verdict = sys.argv[1], sys.argv[2], sys.argv[3]
notes = sys.argv[4] if len(sys.argv) > 4 else ""
d = os.path.join('/verif/seeded', sid)
a = json.load(open(os.path.join(d, 'meta.agent.json'))) if os.path.exists(os.path.join(d, 'meta.agent.json')) else {}
conf = open(os.path.join(d, 'confirm.log')).read() if os.path.exists(os.path.join(d, 'confirm.log')) else ""
m = {
 "property": a.get("property", sid.split('-')[0]),
 "title": a.get("title"),
 "what_breaks": a.get("what_breaks"),
 "needs_to_manifest": a.get("needs_to_manifest"),
 "files": a.get("files"),
 "origin": "written by a fresh sub-agent that was given only the property text and its own scratch worktree of /repo (nothing from /verif)",
 "confirmed_by_lead": {
   "how": "tools/seed_confirm.sh: fresh worktree of /repo HEAD; demo test run without the patch (must pass) and with it (must fail); "
          "then `cargo test --workspace --no-fail-fast --offline` with the patch compared with the unchanged tree by tools/check_repo_tests.py",
   "demo_passes_without_patch": "exit 0" in conf.split("== demo WITH")[0] if conf else None,
   "demo_fails_with_patch": ("exit 101" in conf.split("== demo WITH")[1].split("== repository")[0]) if "== demo WITH" in conf else None,
   "suite_same_as_unchanged_tree": "VERDICT: same as the unchanged tree" in conf,
 },
 "evaluated": {
   "how": "tools/seed_eval.sh %s  (git -C /repo apply patch.diff; ./check <property> --tier quick; git -C /repo checkout -- .)" % sid,
   "detected": det == "yes",
   "verdict_line": verdict,
   "notes": notes,
 },
 "repo_head": subprocess.run(["git", "-C", "/repo", "rev-parse", "--short", "HEAD"], capture_output=True, text=True).stdout.strip(),
}
json.dump(m, open(os.path.join(d, 'meta.json'), 'w'), indent=1)
print("wrote", os.path.join(d, 'meta.json'))
