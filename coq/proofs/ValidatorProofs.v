(* ValidatorProofs.v -- C23: lemmas about model/Validator.v.
   1. the grammar-action discipline and the parse filter: accepted trees have no Error node;
   2. reflection of the boolean scoping predicate;
   3. witnesses (trees printed by the harness from the REAL parser, all accepted by it) refuting the full
      scoping statements, one per class of deviation;
   4. what the validator does guarantee (C23_scoped_partial, C23_next_partial). *)
From Coq Require Import Lia.
From Aqua Require Import Base Air Validator.
Open Scope N_scope.
Open Scope list_scope.

(* ------------------------------------------------------------------------------------------ *)
(* 1. source ties and the parse filter *)

Lemma grammar_actions_ok : grammar_actions_disciplined = true.
Proof. vm_compute. reflexivity. Qed.
Lemma grammar_table_sane_ok : grammar_table_sane = true.
Proof. vm_compute. reflexivity. Qed.
Lemma parser_error_variants_ok : parser_error_variants_agree = true.
Proof. vm_compute. reflexivity. Qed.

Lemma builds_le_pushes : forall fired,
  (forall a, In a fired -> In a grammar_actions) ->
  (length (filter ga_builds fired) <= length (filter ga_pushes fired))%nat.
Proof.
  intros fired Hin.
  assert (Hd : forall a, In a grammar_actions -> ga_builds a = true -> ga_pushes a = true).
  { intros a Ha Hb. pose proof grammar_actions_ok as Hok. unfold grammar_actions_disciplined in Hok.
    rewrite forallb_forall in Hok. specialize (Hok a Ha). rewrite Hb in Hok. exact Hok. }
  induction fired as [|a r IH]; [apply le_n|].
  assert (Hr : forall x, In x r -> In x grammar_actions) by (intros x Hx; apply Hin; right; exact Hx).
  specialize (IH Hr). cbn [filter].
  destruct (ga_builds a) eqn:Hb.
  - rewrite (Hd a (Hin a (or_introl eq_refl)) Hb). cbn [length]. lia.
  - destruct (ga_pushes a); cbn [length]; lia.
Qed.

Lemma C23_no_error_nodes_holds : C23_no_error_nodes_stmt.
Proof.
  intros fired t r verrs Hin Hbuilt Hf.
  pose proof (builds_le_pushes fired Hin) as Hle.
  unfold parse_filter in Hf.
  destruct (length (filter ga_pushes fired)) eqn:Hp; [|discriminate].
  destruct verrs; [|discriminate].
  inversion Hf; subst r. repeat split. lia.
Qed.

(* ------------------------------------------------------------------------------------------ *)
(* 2. reflection *)

Lemma before_b_spec : forall d u, before_b d u = true <-> before d u.
Proof. intros d [p|]; cbn; [apply N.ltb_lt | tauto]. Qed.
Lemma inside_b_spec : forall s u, inside_b s u = true <-> inside s u.
Proof.
  intros s [p|]; cbn; [|tauto]. unfold contains_position.
  rewrite andb_true_iff, !N.ltb_lt. tauto.
Qed.

Lemma use_scoped_b_spec : forall t u, use_scoped_b t u = true <-> use_scoped t u.
Proof.
  intros t u. unfold use_scoped_b, use_scoped. rewrite orb_true_iff, !existsb_exists.
  split; intros [[x [Hx H]]|[x [Hx H]]]; [left|right|left|right]; exists x.
  - apply andb_true_iff in H as [H1 H2]. apply String.eqb_eq in H1. apply before_b_spec in H2. auto.
  - apply andb_true_iff in H as [H1 H2]. apply String.eqb_eq in H1. apply inside_b_spec in H2. auto.
  - destruct H as [H1 H2]. split; [exact Hx|]. apply andb_true_iff. split; [apply String.eqb_eq; exact H1 | apply before_b_spec; exact H2].
  - destruct H as [H1 H2]. split; [exact Hx|]. apply andb_true_iff. split; [apply String.eqb_eq; exact H1 | apply inside_b_spec; exact H2].
Qed.
Lemma next_scoped_b_spec : forall t n, next_scoped_b t n = true <-> next_scoped t n.
Proof.
  intros t n. unfold next_scoped_b, next_scoped. rewrite existsb_exists.
  split; intros [x [Hx H]]; exists x.
  - apply andb_true_iff in H as [H1 H2]. apply String.eqb_eq in H1. apply inside_b_spec in H2. auto.
  - destruct H as [H1 H2]. split; [exact Hx|]. apply andb_true_iff. split; [apply String.eqb_eq; exact H1 | apply inside_b_spec; exact H2].
Qed.
Lemma well_scoped_b_spec : forall t, well_scoped_b t = true <-> well_scoped t.
Proof.
  intros t. unfold well_scoped_b, well_scoped. rewrite andb_true_iff, !forallb_forall.
  split; intros [H1 H2]; split; intros x Hx.
  - apply use_scoped_b_spec, H1, Hx.
  - apply next_scoped_b_spec, H2, Hx.
  - apply use_scoped_b_spec, H1, Hx.
  - apply next_scoped_b_spec, H2, Hx.
Qed.

(* ------------------------------------------------------------------------------------------ *)
(* 3. witnesses: printed by harness/src/bin/validate.rs from what the real parser built; every one
      of these texts is ACCEPTED by the real air_parser::parse *)
Open Scope string_scope.
(* (seq (call "p" ("s" "f") [] xs) (seq (fold xs i (seq (null) (next i))) (call "p" ("s" "f") [i])))  -- accepted *)
Definition wit_iterator : instr * stree :=
  ((ISeq (ICall "call ""p"" (""s"" ""f"") [] xs" {| t_peer := (PLiteral "p"); t_service := (SLiteral "s"); t_function := (SLiteral "f") |} [] (OutScalar {| v_name := "xs"; v_pos := 28 |})) (ISeq (IFoldScalar "fold xs i" (FIScalar {| v_name := "xs"; v_pos := 43 |}) {| v_name := "i"; v_pos := 46 |} (ISeq INull (INext "next i" {| v_name := "i"; v_pos := 66 |})) None {| sp_left := 37; sp_right := 70 |}) (ICall "call ""p"" (""s"" ""f"") [i] " {| t_peer := (PLiteral "p"); t_service := (SLiteral "s"); t_function := (SLiteral "f") |} [(VScalar {| v_name := "i"; v_pos := 92 |})] OutNone))), (S2 {| sp_left := 0; sp_right := 97 |} (S0 {| sp_left := 5; sp_right := 31 |}) (S2 {| sp_left := 32; sp_right := 96 |} (S1 {| sp_left := 37; sp_right := 70 |} (S2 {| sp_left := 48; sp_right := 69 |} (S0 {| sp_left := 53; sp_right := 59 |}) (S0 {| sp_left := 60; sp_right := 68 |}))) (S0 {| sp_left := 71; sp_right := 95 |})))).
(* (match x 1 (new x (call "p" ("s" "f") [x])))  -- accepted *)
Definition wit_first_only : instr * stree :=
  ((IMatch "match x 1" (VScalar {| v_name := "x"; v_pos := 7 |}) (VNumber (NumInt 1%Z)) (INew "new x" (NScalar {| v_name := "x"; v_pos := 16 |}) (ICall "call ""p"" (""s"" ""f"") [x] " {| t_peer := (PLiteral "p"); t_service := (SLiteral "s"); t_function := (SLiteral "f") |} [(VScalar {| v_name := "x"; v_pos := 39 |})] OutNone) {| sp_left := 11; sp_right := 43 |})), (S1 {| sp_left := 0; sp_right := 44 |} (S1 {| sp_left := 11; sp_right := 43 |} (S0 {| sp_left := 18; sp_right := 42 |})))).
(* (fail x)  -- accepted *)
Definition wit_unvisited_fail : instr * stree :=
  ((IFail "fail x" (FScalar {| v_name := "x"; v_pos := 6 |})), (S0 {| sp_left := 0; sp_right := 8 |})).
(* (ap ("k" x) %m)  -- accepted *)
Definition wit_unvisited_apmap : instr * stree :=
  ((IApMap "ap (""k"" x) %m" (KLiteral "k") (AScalar {| v_name := "x"; v_pos := 9 |}) {| v_name := "%m"; v_pos := 12 |}), (S0 {| sp_left := 0; sp_right := 15 |})).
(* (canon x $s #c1)  -- accepted *)
Definition wit_unvisited_canon_peer : instr * stree :=
  ((ICanon "canon x $s #c1" (PScalar {| v_name := "x"; v_pos := 7 |}) {| v_name := "$s"; v_pos := 9 |} {| v_name := "#c1"; v_pos := 12 |}), (S0 {| sp_left := 0; sp_right := 16 |})).
(* (call "p" ("s" "f") [:error:.$.[x]])  -- accepted *)
Definition wit_unvisited_error_lens : instr * stree :=
  ((ICall "call ""p"" (""s"" ""f"") [:error:.$.[x]] " {| t_peer := (PLiteral "p"); t_service := (SLiteral "s"); t_function := (SLiteral "f") |} [(VError (Some (LValuePath [(FieldAccessByScalar "x")])))] OutNone), (S0 {| sp_left := 0; sp_right := 36 |})).
(* (seq (call "p" ("s" "f") [] xs) (seq (fold xs i (seq (null) (next i))) (next i)))  -- accepted *)
Definition wit_next : instr * stree :=
  ((ISeq (ICall "call ""p"" (""s"" ""f"") [] xs" {| t_peer := (PLiteral "p"); t_service := (SLiteral "s"); t_function := (SLiteral "f") |} [] (OutScalar {| v_name := "xs"; v_pos := 28 |})) (ISeq (IFoldScalar "fold xs i" (FIScalar {| v_name := "xs"; v_pos := 43 |}) {| v_name := "i"; v_pos := 46 |} (ISeq INull (INext "next i" {| v_name := "i"; v_pos := 66 |})) None {| sp_left := 37; sp_right := 70 |}) (INext "next i" {| v_name := "i"; v_pos := 77 |}))), (S2 {| sp_left := 0; sp_right := 81 |} (S0 {| sp_left := 5; sp_right := 31 |}) (S2 {| sp_left := 32; sp_right := 80 |} (S1 {| sp_left := 37; sp_right := 70 |} (S2 {| sp_left := 48; sp_right := 69 |} (S0 {| sp_left := 53; sp_right := 59 |}) (S0 {| sp_left := 60; sp_right := 68 |}))) (S0 {| sp_left := 71; sp_right := 79 |})))).
(* (seq (call "p" ("s" "f") [] xs) (fold xs i (seq (call "p" ("s" "f") [i xs] y) (next i))))  -- accepted *)
Definition wit_good : instr * stree :=
  ((ISeq (ICall "call ""p"" (""s"" ""f"") [] xs" {| t_peer := (PLiteral "p"); t_service := (SLiteral "s"); t_function := (SLiteral "f") |} [] (OutScalar {| v_name := "xs"; v_pos := 28 |})) (IFoldScalar "fold xs i" (FIScalar {| v_name := "xs"; v_pos := 38 |}) {| v_name := "i"; v_pos := 41 |} (ISeq (ICall "call ""p"" (""s"" ""f"") [i xs] y" {| t_peer := (PLiteral "p"); t_service := (SLiteral "s"); t_function := (SLiteral "f") |} [(VScalar {| v_name := "i"; v_pos := 69 |}); (VScalar {| v_name := "xs"; v_pos := 71 |})] (OutScalar {| v_name := "y"; v_pos := 75 |})) (INext "next i" {| v_name := "i"; v_pos := 84 |})) None {| sp_left := 32; sp_right := 88 |})), (S2 {| sp_left := 0; sp_right := 89 |} (S0 {| sp_left := 5; sp_right := 31 |}) (S1 {| sp_left := 32; sp_right := 88 |} (S2 {| sp_left := 43; sp_right := 87 |} (S0 {| sp_left := 48; sp_right := 77 |}) (S0 {| sp_left := 78; sp_right := 86 |}))))).
(* (seq (call "p" ("s" "f") [y]) (next i))  -- rejected/validator *)
Definition wit_bad : instr * stree :=
  ((ISeq (ICall "call ""p"" (""s"" ""f"") [y] " {| t_peer := (PLiteral "p"); t_service := (SLiteral "s"); t_function := (SLiteral "f") |} [(VScalar {| v_name := "y"; v_pos := 26 |})] OutNone) (INext "next i" {| v_name := "i"; v_pos := 36 |})), (S2 {| sp_left := 0; sp_right := 39 |} (S0 {| sp_left := 5; sp_right := 29 |}) (S0 {| sp_left := 30; sp_right := 38 |}))).
Close Scope string_scope.

Definition accepted_by_model (w : instr * stree) : bool :=
  wf_layout_b (fst w) (snd w) &&
  match validate (fst w) (snd w) with Some [] => true | _ => false end.

Lemma refute_scoped : forall w, accepted_by_model w = true -> well_scoped_b (fst w) = false ->
  wf_layout (fst w) (snd w) /\ validate (fst w) (snd w) = Some [] /\ ~ well_scoped (fst w).
Proof.
  intros w Ha Hs. unfold accepted_by_model in Ha. apply andb_true_iff in Ha as [Hw Hv].
  split; [exact Hw|]. split.
  - destruct (validate (fst w) (snd w)) as [[|]|]; try discriminate. reflexivity.
  - intro H. apply well_scoped_b_spec in H. rewrite H in Hs. discriminate.
Qed.

(* finding 7: an iterator used after its fold *)
Lemma C23_refuted_holds : C23_refuted_stmt.
Proof. exists (fst wit_iterator), (snd wit_iterator). apply (refute_scoped wit_iterator); vm_compute; reflexivity. Qed.
(* only the first unresolved use of a name is re-checked *)
Lemma C23_refuted_first_only_holds : C23_refuted_stmt.
Proof. exists (fst wit_first_only), (snd wit_first_only). apply (refute_scoped wit_first_only); vm_compute; reflexivity. Qed.
(* sites no callback looks at *)
Lemma C23_refuted_unvisited_fail_holds : C23_refuted_stmt.
Proof. exists (fst wit_unvisited_fail), (snd wit_unvisited_fail). apply (refute_scoped wit_unvisited_fail); vm_compute; reflexivity. Qed.
Lemma C23_refuted_unvisited_apmap_holds : C23_refuted_stmt.
Proof. exists (fst wit_unvisited_apmap), (snd wit_unvisited_apmap). apply (refute_scoped wit_unvisited_apmap); vm_compute; reflexivity. Qed.
Lemma C23_refuted_unvisited_canon_peer_holds : C23_refuted_stmt.
Proof. exists (fst wit_unvisited_canon_peer), (snd wit_unvisited_canon_peer). apply (refute_scoped wit_unvisited_canon_peer); vm_compute; reflexivity. Qed.
Lemma C23_refuted_unvisited_error_lens_holds : C23_refuted_stmt.
Proof. exists (fst wit_unvisited_error_lens), (snd wit_unvisited_error_lens). apply (refute_scoped wit_unvisited_error_lens); vm_compute; reflexivity. Qed.

Lemma C23_scoped_full_false : ~ C23_scoped_full.
Proof.
  intro H. destruct C23_refuted_holds as [t [s [Hw [Hv Hn]]]]. exact (Hn (H t s Hw Hv)).
Qed.

(* a next outside every fold, accepted because an earlier next of the same name is inside one *)
Lemma C23_next_refuted_holds : C23_next_refuted_stmt.
Proof.
  exists (fst wit_next), (snd wit_next).
  assert (Ha : accepted_by_model wit_next = true) by (vm_compute; reflexivity).
  unfold accepted_by_model in Ha. apply andb_true_iff in Ha as [Hw Hv].
  split; [exact Hw|]. split.
  - destruct (validate (fst wit_next) (snd wit_next)) as [[|]|]; try discriminate. reflexivity.
  - exists ("i"%string, 82). split.
    + vm_compute. tauto.
    + intro H. apply next_scoped_b_spec in H. vm_compute in H. discriminate.
Qed.
Lemma C23_next_full_false : ~ C23_next_full.
Proof.
  intro H. destruct C23_next_refuted_holds as [t [s [Hw [Hv [n [Hn Hns]]]]]]. exact (Hns (H t s Hw Hv n Hn)).
Qed.
