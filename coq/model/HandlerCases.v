(* HandlerCases.v -- op sequences against the TraceHandler model, as driven by the harness
   (harness/src/bin/handler.rs drives the real TraceHandler through its public API with the same
   ops and prints what it observed). CIDs are their text. *)
From Aqua Require Import Base Trace Handler.
Open Scope N_scope.
Open Scope list_scope.

Notation hstate := (state string).
Notation htrace := (list hstate).
Notation hhandler := (handler string).

Inductive hop :=
(* call_start; Met r: push (if upgrade && r is RequestSentBy then d else r); NotMet: push d if any *)
| OpCallAuto (d : option (call_result string)) (upgrade : bool)
| OpCallStart
| OpCallEnd (c : call_result string)
| OpApAuto (d : N)                       (* ap_start; Met g: ap_end [g]; NotMet: ap_end [d] *)
| OpApStart
| OpApEnd (gens : list N)
| OpCanonAuto (d : canon_result string) (upgrade : bool)
| OpCanonStart
| OpCanonEnd (c : canon_result string)
| OpParStart
| OpParEnd (left : bool)
| OpFoldStart (id : N)
| OpIterStartNth (id k : N)              (* value_pos := position of the (k mod n)-th stream-valued state of the result *)
| OpIterStartPos (id pos : N)
| OpIterEnd (id : N)
| OpBackIter (id : N)
| OpGenEnd (id : N)
| OpFoldEnd (id : N)
| OpUpdateGen (pos g : N)
| OpSizes.

Inductive hobs :=
| ObsUnit
| ObsCallNotMet
| ObsCallMet (r : call_result string) (pos : N) (from_prev : bool)
| ObsApNotMet
| ObsApMet (g : N) (from_prev : bool)
| ObsCanonEmpty
| ObsCanonMet (r : canon_result string)
| ObsSizes (p c : N)
| ObsGenErr (nowhere : bool)
| ObsErr (e : N)                         (* herr_index *)
| ObsCrash.

Definition src_is_prev (s : value_source) : bool := match s with PreviousData => true | CurrentData => false end.

Definition is_stream_state (s : hstate) : bool :=
  match s with SAp _ => true | SCall (Executed (VRStream _ _)) => true | _ => false end.
Fixpoint stream_positions (t : htrace) (i : N) : list N :=
  match t with
  | [] => []
  | s :: r => if is_stream_state s then i :: stream_positions r (i + 1) else stream_positions r (i + 1)
  end.
Definition nth_stream_pos (t : htrace) (k : N) : N :=
  let ps := stream_positions t 0 in
  match ps with
  | [] => k
  | _ => match nth_N ps (k mod len_N ps) with Some p => p | None => k end
  end.

Definition lift {A} (r : res A) (f : A -> hobs * hhandler) (h : hhandler) : hobs * option hhandler :=
  match r with
  | Ok a => let '(o, h') := f a in (o, Some h')
  | Err e => (ObsErr (herr_index e), None)
  | Crash _ => (ObsCrash, None)
  end.

Definition is_sent (c : call_result string) : bool := match c with RequestSentBy _ => true | _ => false end.
Definition is_canon_sent (c : canon_result string) : bool := match c with CanonRequestSentBy _ => true | _ => false end.

Definition step (h : hhandler) (o : hop) : hobs * option hhandler :=
  match o with
  | OpCallStart =>
      lift (meet_call_start string String.eqb h)
           (fun rh => (match fst rh with
                       | CallNotMet _ => ObsCallNotMet
                       | CallMet _ r p s => ObsCallMet r p (src_is_prev s) end, snd rh)) h
  | OpCallAuto d up =>
      lift (meet_call_start string String.eqb h)
           (fun rh => match fst rh with
                      | CallNotMet _ => (ObsCallNotMet, match d with Some c => meet_call_end string (snd rh) c | None => snd rh end)
                      | CallMet _ r p s =>
                          (ObsCallMet r p (src_is_prev s),
                           meet_call_end string (snd rh)
                             (match d with Some c => if up && is_sent r then c else r | None => r end))
                      end) h
  | OpCallEnd c => (ObsUnit, Some (meet_call_end string h c))
  | OpApStart =>
      lift (meet_ap_start string h)
           (fun rh => (match fst rh with ApNotMet => ObsApNotMet | ApMet g s => ObsApMet g (src_is_prev s) end, snd rh)) h
  | OpApAuto d =>
      lift (meet_ap_start string h)
           (fun rh => match fst rh with
                      | ApNotMet => (ObsApNotMet, meet_ap_end string (snd rh) [d])
                      | ApMet g s => (ObsApMet g (src_is_prev s), meet_ap_end string (snd rh) [g])
                      end) h
  | OpApEnd g => (ObsUnit, Some (meet_ap_end string h g))
  | OpCanonStart =>
      lift (meet_canon_start string String.eqb h)
           (fun rh => (match fst rh with CanonEmpty _ => ObsCanonEmpty | CanonMet _ r => ObsCanonMet r end, snd rh)) h
  | OpCanonAuto d up =>
      lift (meet_canon_start string String.eqb h)
           (fun rh => match fst rh with
                      | CanonEmpty _ => (ObsCanonEmpty, meet_canon_end string (snd rh) d)
                      | CanonMet _ r => (ObsCanonMet r, meet_canon_end string (snd rh) (if up && is_canon_sent r then d else r))
                      end) h
  | OpCanonEnd c => (ObsUnit, Some (meet_canon_end string h c))
  | OpParStart => lift (meet_par_start string h) (fun h' => (ObsUnit, h')) h
  | OpParEnd l => lift (meet_par_subgraph_end string h (if l then SLeft else SRight)) (fun h' => (ObsUnit, h')) h
  | OpFoldStart id => lift (meet_fold_start string h id) (fun h' => (ObsUnit, h')) h
  | OpIterStartNth id k =>
      lift (meet_iteration_start string h id (nth_stream_pos (result_trace string h) k)) (fun h' => (ObsUnit, h')) h
  | OpIterStartPos id p => lift (meet_iteration_start string h id p) (fun h' => (ObsUnit, h')) h
  | OpIterEnd id => lift (meet_iteration_end string h id) (fun h' => (ObsUnit, h')) h
  | OpBackIter id => lift (meet_back_iterator string h id) (fun h' => (ObsUnit, h')) h
  | OpGenEnd id => lift (meet_generation_end string h id) (fun h' => (ObsUnit, h')) h
  | OpFoldEnd id => lift (meet_fold_end string h id) (fun h' => (ObsUnit, h')) h
  | OpUpdateGen p g =>
      match update_generation string h p g with
      | inl h' => (ObsUnit, Some h')
      | inr PointsToNowhere => (ObsGenErr true, Some h)
      | inr PointsToInvalidState => (ObsGenErr false, Some h)
      end
  | OpSizes => let '(p, c) := subgraph_sizes string h in (ObsSizes p c, Some h)
  end.

(* run until the first error or crash (the interpreter aborts the run there) *)
Fixpoint run_ops (h : hhandler) (ops : list hop) : list hobs * option htrace :=
  match ops with
  | [] => ([], Some (result_trace string h))
  | o :: rest =>
      match step h o with
      | (ob, Some h') => let '(obs, t) := run_ops h' rest in (ob :: obs, t)
      | (ob, None) => ([ob], None)
      end
  end.

Definition call_result_s_eqb := call_result_eqb string String.eqb.
Definition canon_result_s_eqb := canon_result_eqb string String.eqb.

Definition hobs_eqb (a b : hobs) : bool :=
  match a, b with
  | ObsUnit, ObsUnit | ObsCallNotMet, ObsCallNotMet | ObsApNotMet, ObsApNotMet
  | ObsCanonEmpty, ObsCanonEmpty | ObsCrash, ObsCrash => true
  | ObsCallMet r p s, ObsCallMet r' p' s' => call_result_s_eqb r r' && (p =? p') && Bool.eqb s s'
  | ObsApMet g s, ObsApMet g' s' => (g =? g') && Bool.eqb s s'
  | ObsCanonMet r, ObsCanonMet r' => canon_result_s_eqb r r'
  | ObsSizes p c, ObsSizes p' c' => (p =? p') && (c =? c')
  | ObsGenErr x, ObsGenErr y => Bool.eqb x y
  | ObsErr e, ObsErr e' => e =? e'
  | _, _ => false
  end.

Record hcase := { hc_prev : htrace; hc_cur : htrace; hc_ops : list hop;
                  hc_obs : list hobs; hc_result : option htrace }.
Definition case_t := hcase.

(* correspondence: same observations op by op, same result trace *)
Definition check_case (c : case_t) : bool :=
  let '(obs, t) := run_ops (handler_from string (hc_prev c) (hc_cur c)) (hc_ops c) in
  list_eqb hobs_eqb obs (hc_obs c) &&
  option_eqb (trace_eqb string String.eqb) t (hc_result c).
