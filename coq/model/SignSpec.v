(* SignSpec.v -- what C03 says about one run of the executor model: the verifier's attribution rule
   over model traces, the reference-closure of the CID stores, the invariant that ties the
   PeerCidTracker to the result trace, the version of produced data, and the statements of C03.

   Mirrors:
     crates/air-lib/interpreter-data/src/interpreter_data/verification.rs   collect_peers_cids_from_trace
     crates/air-lib/interpreter-data/src/executed_state/impls.rs            CallResult::get_cid, ValueRef::get_cid
     crates/air-lib/interpreter-data/src/cid_info.rs                        CidInfo::verify (store-to-store references)
     crates/air-lib/interpreter-signatures/src/trackers.rs                  PeerCidTracker::{register, gen_signature}
     air/src/farewell_step/outcome.rs                                       sign_result, populate_outcome_from_contexts
     air/src/signing_step.rs, air/src/runner.rs                             salt, order of signing
     air/src/preparation_step/interpreter_versions.rs                       versions

   CIDs are symbolic (Values.v): the tetraplet a service-result / canon-result aggregate points to is a
   subterm of the id, so "look the aggregate up in the store, then its tetraplet" is a function of the id.
   A lookup that would fail in the code (`expect("cannot happen in a checked CID store")`) is [None].
   Definitions only (proofs: proofs/SignProofs.v). *)
From Aqua Require Import Base Json Air Trace Handler Values Scalars Lens Exec RunExec.
From Aqua Require Sig RunTop.
From Coq Require Import Permutation.
Open Scope N_scope.
Open Scope list_scope.

(* ------------------------------------------------------------------------------------------ *)
(* attribution: verification.rs collect_peers_cids_from_trace *)

(* tetraplet_store.get(cid).peer_pk *)
Definition tetraplet_cid_peer (tc : cid) : option string :=
  match tc with CTetraplet t => Some (tp_peer t) | _ => None end.
(* service_result_store.get(cid).tetraplet_cid, then the tetraplet store *)
Definition service_peer (c : cid) : option string :=
  match c with CService _ _ tc => tetraplet_cid_peer tc | _ => None end.
(* canon_result_store.get(cid).tetraplet, then the tetraplet store *)
Definition canon_peer (c : cid) : option string :=
  match c with CCanonResult tc _ => tetraplet_cid_peer tc | _ => None end.

(* a reference of the trace into the stores: (true, c) a service-result aggregate, (false, c) a canon result.
   CallResult::get_cid / ValueRef::get_cid: RequestSentBy and Unused carry no aggregate id. *)
Definition ref := (bool * cid)%type.
Definition state_ref (st : state cid) : option ref :=
  match st with
  | SCall (Executed (VRScalar c)) | SCall (Executed (VRStream c _)) | SCall (Failed c) => Some (true, c)
  | SCanon (CanonExecuted c) => Some (false, c)
  | _ => None
  end.
Definition ref_peer (r : ref) : option string := if fst r then service_peer (snd r) else canon_peer (snd r).

Definition refs (tr : list (state cid)) : list ref :=
  flat_map (fun st => match state_ref st with Some r => [r] | None => [] end) tr.

Definition peer_is (p : string) (o : option string) : bool :=
  match o with Some q => String.eqb q p | None => false end.

(* the CIDs the verifier pushes for peer p, in trace order (PeerInfo.cids before the sort) *)
Definition attributed_cids (tr : list (state cid)) (p : string) : list cid :=
  map snd (filter (fun r => peer_is p (ref_peer r)) (refs tr)).

(* no lookup of collect_peers_cids_from_trace fails (no `expect` fires) *)
Definition attr_total (tr : list (state cid)) : Prop := Forall (fun r => ref_peer r <> None) (refs tr).
Definition attr_totalb (tr : list (state cid)) : bool :=
  forallb (fun r => match ref_peer r with Some _ => true | None => false end) (refs tr).

(* the verifier's reading of a trace as Sig.v takes it: (peer, cid text) in trace order.
   [cid_text] is the real CID string of a content term (multibase of the multihash of its serialisation):
   an arbitrary function here -- no injectivity is needed to show that a signature VERIFIES. *)
Definition sig_trace (cid_text : cid -> string) (tr : list (state cid)) : list (string * string) :=
  flat_map (fun r => match ref_peer r with Some p => [(p, cid_text (snd r))] | None => [] end) (refs tr).

(* ------------------------------------------------------------------------------------------ *)
(* CID stores: CidInfo::verify over symbolic ids.  "Every stored item hashes to its CID" is by
   construction for a content term of the right kind; an entry of the wrong kind (an id whose content
   is unknown, [COpaque], or content of another store) fails the check. *)

Definition is_value_cid (c : cid) : bool := match c with CValue _ => true | _ => false end.
Definition is_tetraplet_cid (c : cid) : bool := match c with CTetraplet _ => true | _ => false end.

(* verify_service_result_store: tetraplet_store.check_reference, value_store.check_reference *)
Definition service_entry_ok (cs : cid_state) (c : cid) : bool :=
  match c with
  | CService vc _ tc => cid_mem tc (cs_tetraplets cs) && cid_mem vc (cs_values cs)
  | _ => false
  end.
(* verify_canon_result_store, first loop *)
Definition canon_result_entry_ok (cs : cid_state) (c : cid) : bool :=
  match c with
  | CCanonResult tc vs => forallb (fun v => cid_mem v (cs_canon_elems cs)) vs && cid_mem tc (cs_tetraplets cs)
  | _ => false
  end.
(* verify_canon_result_store, second loop *)
Definition canon_elem_entry_ok (cs : cid_state) (c : cid) : bool :=
  match c with
  | CCanonElem vc tc prov =>
      cid_mem tc (cs_tetraplets cs) && cid_mem vc (cs_values cs) &&
      match prov with
      | None => true
      | Some (true, s) => cid_mem s (cs_services cs)
      | Some (false, r) => cid_mem r (cs_canon_results cs)
      end
  | _ => false
  end.

(* the same without the provenance reference of canon elements (what the invariant carries; the provenance
   reference needs an invariant over every value held in the context: oracle-checked, see checks/C03.py) *)
Definition canon_elem_entry_ok_np (cs : cid_state) (c : cid) : bool :=
  match c with
  | CCanonElem vc tc _ => cid_mem tc (cs_tetraplets cs) && cid_mem vc (cs_values cs)
  | _ => false
  end.

Definition cid_info_verify (cs : cid_state) : bool :=
  forallb is_value_cid (cs_values cs) && forallb is_tetraplet_cid (cs_tetraplets cs) &&
  forallb (canon_result_entry_ok cs) (cs_canon_results cs) && forallb (canon_elem_entry_ok cs) (cs_canon_elems cs) &&
  forallb (service_entry_ok cs) (cs_services cs).

Definition cid_info_verify_np (cs : cid_state) : bool :=
  forallb is_value_cid (cs_values cs) && forallb is_tetraplet_cid (cs_tetraplets cs) &&
  forallb (canon_result_entry_ok cs) (cs_canon_results cs) && forallb (canon_elem_entry_ok_np cs) (cs_canon_elems cs) &&
  forallb (service_entry_ok cs) (cs_services cs).

(* trace-to-store references (NOT checked by CidInfo::verify; a missing one is the `expect` of the verifier) *)
Definition ref_in_store (cs : cid_state) (r : ref) : bool :=
  cid_mem (snd r) (if fst r then cs_services cs else cs_canon_results cs).
Definition trace_refs_ok (tr : list (state cid)) (cs : cid_state) : bool := forallb (ref_in_store cs) (refs tr).

Definition store_closed (tr : list (state cid)) (cs : cid_state) : bool := cid_info_verify cs && trace_refs_ok tr cs.
Definition store_closed_np (tr : list (state cid)) (cs : cid_state) : bool := cid_info_verify_np cs && trace_refs_ok tr cs.

(* one store only grows *)
Definition stores_le (a b : cid_state) : Prop :=
  (forall c, cid_mem c (cs_values a) = true -> cid_mem c (cs_values b) = true) /\
  (forall c, cid_mem c (cs_tetraplets a) = true -> cid_mem c (cs_tetraplets b) = true) /\
  (forall c, cid_mem c (cs_canon_elems a) = true -> cid_mem c (cs_canon_elems b) = true) /\
  (forall c, cid_mem c (cs_canon_results a) = true -> cid_mem c (cs_canon_results b) = true) /\
  (forall c, cid_mem c (cs_services a) = true -> cid_mem c (cs_services b) = true).

(* ------------------------------------------------------------------------------------------ *)
(* the invariant of the executor: tracker and result trace evolve together *)

(* the positions remembered by the par / fold state inserters hold placeholder states
   (StateInserter: a Par(0,0) pushed at creation, overwritten by the final Par / Fold state) *)
Definition is_struct (st : state cid) : bool := match st with SPar _ _ | SFold _ => true | _ => false end.
Definition struct_at (tr : list (state cid)) (p : N) : Prop :=
  match nth_error tr (N.to_nat p) with Some st => is_struct st = true | None => False end.
Definition handler_ok (h : handler cid) : Prop :=
  Forall (fun f => struct_at (result_trace cid h) (pf_inserter f)) (h_pars cid h) /\
  Forall (fun e => struct_at (result_trace cid h) (ff_inserter (snd e))) (h_folds cid h).

Definition res_trace (x : ctx) : list (state cid) := result_trace cid (x_handler x).

(* p0: the run parameters (never change); closed0: whether the merged input stores verified *)
Definition sign_inv (p0 : run_params) (closed0 : bool) (x : ctx) : Prop :=
  x_params x = p0 /\
  Permutation (x_tracker x) (attributed_cids (res_trace x) (rp_current_peer p0)) /\
  attr_total (res_trace x) /\
  handler_ok (x_handler x) /\
  trace_refs_ok (res_trace x) (x_cids x) = true /\
  (closed0 = true -> cid_info_verify_np (x_cids x) = true).

(* an outcome carries the invariant when it can lead to new data: success or a catchable error
   (after an uncatchable error the context is dropped and the previous data is returned) *)
Definition xres_inv (P : ctx -> Prop) (r : xres) : Prop :=
  match r with XOk x => P x | XErr e x => is_catchable e = true -> P x | _ => True end.
Definition exec_preserves (P : ctx -> Prop) (run : instr -> ctx -> xres) : Prop :=
  forall i x, P x -> xres_inv P (run i x).
(* the shape of the obligation on the stage-2 hook (ExecStreams.v): if the recursive executor it is
   given preserves the invariant then so does every result it returns *)
Definition stream_hook_preserves (P : ctx -> Prop)
           (esi : (instr -> ctx -> xres) -> instr -> ctx -> option xres) : Prop :=
  forall run i x r, exec_preserves P run -> P x -> esi run i x = Some r -> xres_inv P r.

(* ------------------------------------------------------------------------------------------ *)
(* versions: outcome.rs stamps env!("CARGO_PKG_VERSION") of the `air` crate into produced data *)
Definition produced_as_version : RunTop.version :=
  match produced_version with
  | (a, b, c) => {| RunTop.v_major := a; RunTop.v_minor := b; RunTop.v_patch := c; RunTop.v_pre_nonempty := produced_version_pre |}
  end.

(* ------------------------------------------------------------------------------------------ *)
(* tie to the source (tools/genx_sign.py) *)
Definition expected_record_sites : list (string * N * N * bool) :=
  [("handle_prev_state", 2, 2, true);                          (* Failed re-emitted, Executed re-emitted *)
   ("handle_service_error", 1, 1, true);                       (* ret_code <> 0 *)
   ("try_to_service_result", 1, 1, true);                      (* result is not JSON (since the fix) *)
   ("populate_context_from_peer_service_result", 2, 0, true);  (* scalar / stream output; the caller emits the state *)
   ("populate_seen_cid_context", 1, 0, true);                  (* canon re-emitted from data *)
   ("populate_unseen_cid_context", 1, 0, true)]%string.        (* canon executed here *)
Definition record_site_eqb (a b : string * N * N * bool) : bool :=
  match a, b with (n, k, e, f), (n', k', e', f') => String.eqb n n' && (k =? k') && (e =? e') && Bool.eqb f f' end.
Definition expected_record_peers : list (string * string) :=
  [("handle_prev_state", "&tetraplet.peer_pk"); ("handle_prev_state", "&tetraplet.peer_pk");
   ("handle_service_error", "&peer_id"); ("try_to_service_result", "&tetraplet.peer_pk");
   ("populate_context_from_peer_service_result", "&peer_id"); ("populate_context_from_peer_service_result", "&peer_id");
   ("populate_seen_cid_context", "peer_id"); ("populate_unseen_cid_context", "&tetraplet.peer_pk")]%string.

Definition sign_table_agrees : bool :=
  outcome_version_is_pkg_version && sign_salt_is_particle_id && sign_after_execution &&
  signature_put_under_own_key && tracker_registers_current_peer_only &&
  list_eqb record_site_eqb record_cid_sites expected_record_sites &&
  list_eqb (pair_eqb String.eqb String.eqb) record_peer_args expected_record_peers &&
  list_eqb String.eqb track_service_result_inserts ["value_tracker"; "tetraplet_tracker"; "service_result_agg_tracker"]%string &&
  list_eqb String.eqb cid_info_verify_calls
    ["verify_value_store"; "verify_tetraplet_store"; "verify_canon_result_store"; "verify_service_result_store"]%string &&
  list_eqb String.eqb cid_info_verify_refs
    ["verify_service_result_store:tetraplet_store<-serv_result.tetraplet_cid";
     "verify_service_result_store:value_store<-serv_result.value_cid";
     "verify_canon_result_store:canon_element_store<-val";
     "verify_canon_result_store:tetraplet_store<-canon_result.tetraplet";
     "verify_canon_result_store:tetraplet_store<-canon_element.tetraplet";
     "verify_canon_result_store:value_store<-canon_element.value";
     "verify_canon_result_store:service_result_store<-cid";
     "verify_canon_result_store:canon_result_store<-cid"]%string &&
  list_eqb String.eqb attribution_reads
    ["state:Call:refcall"; "get:service_result_store:cid"; "get:tetraplet_store:service_result.tetraplet_cid";
     "peer:tetraplet"; "push:cid";
     "state:Canon:CanonResult::Executed(refcid)"; "get:canon_result_store:cid"; "get:tetraplet_store:canon_result.tetraplet";
     "peer:tetraplet"; "push:cid"]%string &&
  list_eqb String.eqb get_cid_arms
    ["CallResult::RequestSentBy=>None"; "CallResult::Executed=>inner"; "CallResult::Failed=>Some";
     "ValueRef::Scalar=>Some"; "ValueRef::Stream=>Some"; "ValueRef::Unused=>None"]%string.

(* ------------------------------------------------------------------------------------------ *)
(* statements *)

Section Statements.
  (* stage-2 hook and end-of-run stream compactification (RunExec.run's section variables) *)
  Variable esi : (instr -> ctx -> xres) -> instr -> ctx -> option xres.
  Variable fin : ctx -> ctx + uncatchable.

  Definition hook_ok : Prop := forall p0 b0, stream_hook_preserves (sign_inv p0 b0) esi.
  Definition finish_ok : Prop := forall p0 b0 x x', sign_inv p0 b0 x -> fin x = inl x' -> sign_inv p0 b0 x'.

  Definition me (i : run_input) : string := rp_current_peer (ri_params i).

  (* the input stores passed CidInfo::verify: current data in verification_step::verify, previous data because
     this peer produced it (C03_store_closed for the earlier run) *)
  Definition inputs_verified (i : run_input) : Prop :=
    cid_info_verify_np (d_cids (ri_prev i)) = true /\ cid_info_verify_np (d_cids (ri_cur i)) = true.

  (* the current peer signs exactly the CIDs the verifier will attribute to it, and the verifier's lookups succeed *)
  Definition C03_own_signature_stmt : Prop :=
    hook_ok -> finish_ok ->
    forall fuel i code d next reqs signed,
      run esi fin fuel i = OutNewData code d next reqs signed ->
      Permutation signed (attributed_cids (d_trace d) (me i)) /\ attr_total (d_trace d).

  (* hence the signature made by sign_result verifies under DataVerifier's rule.  [signer] is the peer id of the
     key pair; the hypothesis signer = current peer is `sign_key i = key_of i.current_peer` of the design *)
  Definition C03_sig_verifies_stmt : Prop :=
    hook_ok -> finish_ok ->
    forall (cid_text : cid -> string) fuel i code d next reqs signed salt,
      run esi fin fuel i = OutNewData code d next reqs signed ->
      Sig.sig_verify (me i) (Sig.peer_cids (me i) (sig_trace cid_text (d_trace d))) salt
                     (Sig.sign_cids (me i) (map cid_text signed) salt) = true.

  (* every CID referenced by the output trace or by a stored aggregate is present in the output stores *)
  Definition C03_store_closed_stmt : Prop :=
    hook_ok -> finish_ok ->
    forall fuel i code d next reqs signed,
      run esi fin fuel i = OutNewData code d next reqs signed ->
      trace_refs_ok (d_trace d) (d_cids d) = true /\
      (inputs_verified i -> store_closed_np (d_trace d) (d_cids d) = true).

  (* the data as the next peer's verification step sees it: the verifier's reading of the trace and the
     signature store after `signature_store.put(own key, own signature)`; [sigs] is the store merged by this
     run's own verification step *)
  Definition produced_data (cid_text : cid -> string) (i : run_input) (d : idata) (signed : list cid)
             (salt : string) (sigs : Sig.amap Sig.sig) : Sig.data :=
    Sig.MkData (sig_trace cid_text (d_trace d))
               (Sig.map_insert (me i) (Sig.sign_cids (me i) (map cid_text signed) salt) sigs).

  (* signatures of other peers carried along: the stored signature is over what the trace attributes to them *)
  Definition foreign_ok (key_ok : string -> bool) (salt : string) (out : Sig.data) (self : string) : Prop :=
    Sig.wf_data out /\
    (forall k, In k (Sig.keys (Sig.d_sigs out)) -> key_ok k = true) /\
    (forall p c, In c (Sig.Mof out p) -> exists s, Sig.map_get p (Sig.d_sigs out) = Some s) /\
    (forall p s, p <> self -> Sig.map_get p (Sig.d_sigs out) = Some s -> Sig.sig_verify p (Sig.Mof out p) salt s = true).

  (* another peer q accepts the produced data as current data: its verification step succeeds *)
  Definition C03_accepted_stmt : Prop :=
    hook_ok -> finish_ok ->
    forall (cid_text : cid -> string) key_ok o fuel i code d next reqs signed salt sigs (qprev : Sig.data) vp,
      run esi fin fuel i = OutNewData code d next reqs signed ->
      inputs_verified i ->
      let out := produced_data cid_text i d signed salt sigs in
      foreign_ok key_ok salt out (me i) ->
      Sig.wf_data qprev -> Sig.dv_new key_ok (Sig.o_new_prev o) qprev = Sig.DOk vp ->
      (forall p, ~ Sig.incomparable (Sig.Mof qprev p) (Sig.Mof out p)) ->
      cid_info_verify (d_cids d) = cid_info_verify_np (d_cids d) ->     (* the provenance references: oracle-checked *)
      exists st, Sig.verification_step key_ok o (cid_info_verify (d_cids d)) qprev out salt = RunTop.ROk st.
End Statements.

(* foreign signatures: the run's own verification step kept, for peer p, the signature of the LARGER of the two
   input multisets (C15_keep_larger); it verifies on the output exactly when the output trace attributes that
   multiset to p -- i.e. when the merge re-emitted all of p's states of the larger input and nothing else
   ("both windows fully consumed").  The hypothesis [Sig.meq ...] is what the oracle checks on the real code. *)
Definition C03_foreign_partial_stmt : Prop :=
  forall key_ok o cid_ok (prev cur : Sig.data) salt st p (out_cids : list string),
    Sig.wf_data prev -> Sig.wf_data cur ->
    Sig.verification_step key_ok o cid_ok prev cur salt = RunTop.ROk st ->
    (forall sp, Sig.map_get p (Sig.d_sigs prev) = Some sp -> Sig.sig_verify p (Sig.Mof prev p) salt sp = true) ->
    Sig.meq out_cids (Sig.larger_of (Sig.Mof prev p) (Sig.Mof cur p)) ->
    forall s, Sig.map_get p st = Some s -> Sig.sig_verify p out_cids salt s = true.

(* the full statement about foreign signatures (not proved in general: it needs the merge invariant of the
   trace handler over whole histories; oracle-checked) *)
Definition C03_foreign_full (esi : (instr -> ctx -> xres) -> instr -> ctx -> option xres)
           (fin : ctx -> ctx + uncatchable) : Prop :=
  forall fuel i code d next reqs signed p,
    run esi fin fuel i = OutNewData code d next reqs signed -> p <> rp_current_peer (ri_params i) ->
    let a := attributed_cids (d_trace (ri_prev i)) p in
    let b := attributed_cids (d_trace (ri_cur i)) p in
    Permutation (attributed_cids (d_trace d) p) (if Nat.ltb (length a) (length b) then b else a).

Definition C03_version_stmt : Prop :=
  RunTop.version_lt_min produced_as_version = false /\ sign_table_agrees = true.

(* ------------------------------------------------------------------------------------------ *)
(* the statements for the executor that is compared with the implementation:
   run2 = run stream_instr finish_streams (ExecStreams.v); the two hypotheses on the hook are theorems there *)
From Aqua Require Import ExecStreams.

Definition C03_hooks_stmt : Prop :=
  hook_ok stream_instr /\ finish_ok finish_streams /\ hook_ok no_streams /\ finish_ok no_finish.

Definition C03_own_signature_run2_stmt : Prop :=
  forall fuel i code d next reqs signed,
    run2 fuel i = OutNewData code d next reqs signed ->
    Permutation signed (attributed_cids (d_trace d) (rp_current_peer (ri_params i))) /\ attr_total (d_trace d).

Definition C03_sig_verifies_run2_stmt : Prop :=
  forall (cid_text : cid -> string) fuel i code d next reqs signed salt,
    run2 fuel i = OutNewData code d next reqs signed ->
    let p := rp_current_peer (ri_params i) in
    Sig.sig_verify p (Sig.peer_cids p (sig_trace cid_text (d_trace d))) salt (Sig.sign_cids p (map cid_text signed) salt) = true.

Definition C03_store_closed_run2_stmt : Prop :=
  forall fuel i code d next reqs signed,
    run2 fuel i = OutNewData code d next reqs signed ->
    trace_refs_ok (d_trace d) (d_cids d) = true /\
    (cid_info_verify_np (d_cids (ri_prev i)) = true -> cid_info_verify_np (d_cids (ri_cur i)) = true ->
     store_closed_np (d_trace d) (d_cids d) = true).

Definition C03_accepted_run2_stmt : Prop := C03_accepted_stmt stream_instr finish_streams.

(* the whole property over the model: everything above, the full CidInfo::verify of the output stores
   (with the provenance references of canon elements) and the foreign signatures *)
Definition C03_full : Prop :=
  C03_own_signature_run2_stmt /\ C03_sig_verifies_run2_stmt /\ C03_version_stmt /\
  (forall fuel i code d next reqs signed,
     run2 fuel i = OutNewData code d next reqs signed ->
     cid_info_verify (d_cids (ri_prev i)) = true -> cid_info_verify (d_cids (ri_cur i)) = true ->
     store_closed (d_trace d) (d_cids d) = true) /\
  C03_foreign_full stream_instr finish_streams.
