"""Translator piece for C11 (a canonicalized stream is fixed once and identical everywhere): the decisive
source lines of

  air/src/execution_step/instructions/canon_utils/mod.rs   handle_seen_canon (dispatch), handle_unseen_canon and
                                                            handle_canon_request_sent_by (the current-peer test),
                                                            handle_canon_executed (rebuilds the value from the content id:
                                                            no stream, no producer), verify_canon,
                                                            create_canon_stream_for_first_time, populate_unseen_cid_context
  air/src/execution_step/instructions/canon.rs              the producer (Stream::iter order) and the epilog
  air/src/execution_step/value_types/canon_stream.rs        CanonStream::from_values: tetraplet (peer, "", "", "")
  air/src/execution_step/value_types/stream/stream_definition.rs   Stream::iter = previous, current, new
  air/src/execution_step/execution_context/cid_state.rs     get_canon_value_by_cid: fake trace position
  air/src (all files)                                       the places that create a canon result id

as Coq constants.  model/CanonSpec.v compares them with what the executor model does ([c11_source_agrees],
theorem C11_source_tie); the canon merge table itself is produced by tools/genx_merge.py (mt_canon_table)
and C11_source_tie proves that the model's merge_canon_results is its first-match reading on all inputs."""
import os
import re

import gen_model
from gen_model import CMP, TranslationError, coq_list, coq_str, read, strip_comments

UTILS = "air/src/execution_step/instructions/canon_utils/mod.rs"
CANON = "air/src/execution_step/instructions/canon.rs"
CSTREAM = "air/src/execution_step/value_types/canon_stream.rs"
STREAM = "air/src/execution_step/value_types/stream/stream_definition.rs"
CIDSTATE = "air/src/execution_step/execution_context/cid_state.rs"


def norm(s):
    return re.sub(r"\s+", " ", s).strip()


def _sig_end(src, i):
    depth = 0
    while i < len(src):
        c = src[i]
        if c == "(":
            depth += 1
        elif c == ")":
            depth -= 1
            if depth == 0:
                return i
        i += 1
    raise TranslationError("C11: unbalanced signature")


def fn_parts(src, name, rel):
    """(signature text, body text) of `fn name`."""
    m = re.search(r"\bfn\s+" + re.escape(name) + r"\b", src)
    if not m:
        raise TranslationError("C11: fn %s not found in %s" % (name, rel))
    e = _sig_end(src, m.end())
    i = src.index("{", e)
    depth, j = 1, i + 1
    while j < len(src) and depth > 0:
        depth += {"{": 1, "}": -1}.get(src[j], 0)
        j += 1
    return src[m.end():e + 1], src[i + 1:j - 1]


def statements(block):
    out, depth, cur = [], 0, ""
    for c in block:
        if c in "({[":
            depth += 1
        elif c in ")}]":
            depth -= 1
        if c == ";" and depth == 0:
            out.append(norm(cur))
            cur = ""
        else:
            cur += c
    if norm(cur):
        out.append(norm(cur))
    return [s for s in out if s]


def strip_as_str(e):
    return re.sub(r"\.as_str\(\)", "", norm(e))


def if_else(body, pattern, what):
    """`if <lhs> <op> <rhs> { A } else { B }` whose condition matches pattern -> (guard, A, B)."""
    for m in re.finditer(r"\bif\s+([^{}]+?)\s*(==|!=)\s*([^{}]+?)\s*\{", body):
        if not re.search(pattern, m.group(0)):
            continue
        i = m.end()
        depth, j = 1, i
        while j < len(body) and depth > 0:
            depth += {"{": 1, "}": -1}.get(body[j], 0)
            j += 1
        then = body[i:j - 1]
        rest = body[j:]
        m2 = re.match(r"\s*else\s*\{", rest)
        els = None
        if m2:
            k = m2.end()
            depth, l = 1, k
            while l < len(rest) and depth > 0:
                depth += {"{": 1, "}": -1}.get(rest[l], 0)
                l += 1
            els = rest[k:l - 1]
        return (strip_as_str(m.group(1)), m.group(2), strip_as_str(m.group(3))), then, els
    raise TranslationError("C11: %s not found" % what)


def guard_term(g):
    return "(%s, %s, %s)" % (coq_str(g[0]), CMP[g[1]], coq_str(g[2]))


def seen_dispatch(src):
    _, body = fn_parts(src, "handle_seen_canon", UTILS)
    m = re.search(r"match\s+canon_result\s*\{", body)
    if not m:
        raise TranslationError("C11: handle_seen_canon no longer matches on canon_result")
    arms = []
    for am in re.finditer(r"(CanonResult::\w+\([^)]*\))\s*=>\s*\{?\s*(\w+)\s*\(", body[m.end():]):
        arms.append((norm(am.group(1)), am.group(2)))
    if not arms:
        raise TranslationError("C11: handle_seen_canon: no arms recognised")
    return arms


def unseen(src):
    _, body = fn_parts(src, "handle_unseen_canon", UTILS)
    g, then, els = if_else(body, r"current_peer_id", "the current-peer test of handle_unseen_canon")
    if els is None:
        raise TranslationError("C11: handle_unseen_canon: no else branch")
    e = statements(els)
    if len(e) != 1:
        raise TranslationError("C11: handle_unseen_canon: else branch is not a single call")
    return g, e[0]


def sent_by(src):
    _, body = fn_parts(src, "handle_canon_request_sent_by", UTILS)
    g, then, els = if_else(body, r"current_peer_id", "the current-peer test of handle_canon_request_sent_by")
    if els is None:
        raise TranslationError("C11: handle_canon_request_sent_by: no else branch")
    e = statements(els)
    if len(e) != 1:
        raise TranslationError("C11: handle_canon_request_sent_by: else branch is not a single call")
    return g, statements(then), e[0]


def executed(src):
    sig, body = fn_parts(src, "handle_canon_executed", UTILS)
    takes_producer = bool(re.search(r"CreateCanonStreamClosure|create_canon_stream", sig))
    mentions_streams = bool(re.search(r"\.\s*streams\b|\.\s*stream_maps\b|create_canon_stream|iter_unique_key_object|\bStream(Map)?::", body))
    return takes_producer, mentions_streams, statements(body)


def verify(src):
    _, body = fn_parts(src, "verify_canon", UTILS)
    m = re.search(r"\bif\s+(\w+)\s*(==|!=)\s*(\w+)\s*\{\s*return\s+Err\(\s*([\w:]+)\s*\{", body)
    if not m:
        raise TranslationError("C11: verify_canon: comparison not recognised")
    if not re.search(r"\}\s*Ok\(\(\)\)\s*$", norm(body)):
        raise TranslationError("C11: verify_canon does not end in Ok(())")
    return (m.group(1), m.group(2), m.group(3)), m.group(4)


def first_time(src):
    _, body = fn_parts(src, "create_canon_stream_for_first_time", UTILS)
    if re.search(r"\bif\b|\bmatch\b", body):
        raise TranslationError("C11: create_canon_stream_for_first_time is no longer straight-line code")
    return statements(body)


def populate_unseen(src):
    _, body = fn_parts(src, "populate_unseen_cid_context", UTILS)
    m = re.search(r"let\s+value_cids\s*=\s*(.+?);", body, flags=re.S)
    m2 = re.search(r"let\s+canon_result\s*=\s*(.+?);", body, flags=re.S)
    if not m or not m2:
        raise TranslationError("C11: populate_unseen_cid_context: value_cids / canon_result not recognised")
    if not re.search(r"let\s+tetraplet\s*=\s*canon_stream\.tetraplet\(\)\s*;", body):
        raise TranslationError("C11: populate_unseen_cid_context: the tetraplet is no longer the canon stream's")
    if not re.search(r"record_canon_cid\(&tetraplet\.peer_pk,\s*&canon_result_cid\)", body):
        raise TranslationError("C11: populate_unseen_cid_context no longer registers the id for the tetraplet's peer")
    return norm(m.group(1)), norm(m2.group(1))


def track_sites():
    sites = []
    root = os.path.join(gen_model.REPO, "air/src")
    for dp, dn, fn in sorted(os.walk(root)):
        dn.sort()
        for f in sorted(fn):
            if not f.endswith(".rs"):
                continue
            rel = os.path.relpath(os.path.join(dp, f), gen_model.REPO)
            src = strip_comments(read(rel))
            if re.search(r"canon_result_tracker\s*\.\s*(track_value|track_raw_value|insert)\s*\(", src):
                sites.append(rel)
    return sites


def closure_body(src, fn_name, rel):
    _, body = fn_parts(src, fn_name, rel)
    m = re.search(r"Box::new\(\s*move\s*\|", body)
    if not m:
        raise TranslationError("C11: %s: closure not found" % fn_name)
    i = body.index("{", m.end())
    depth, j = 1, i + 1
    while j < len(body) and depth > 0:
        depth += {"{": 1, "}": -1}.get(body[j], 0)
        j += 1
    return body[i + 1:j - 1]


def producer():
    src = strip_comments(read(CANON))
    body = closure_body(src, "create_canon_stream_producer", CANON)
    if not re.search(r"exec_ctx\s*\.streams\s*\.get\(stream_name,\s*position\)\s*\.map\(Cow::Borrowed\)\s*\.unwrap_or_default\(\)", norm(body).replace(" .", ".")):
        raise TranslationError("C11: canon.rs producer: the stream lookup (or the empty default) is not recognised")
    m = re.search(r"let\s+values\s*=\s*(.+?);", body, flags=re.S)
    if not m:
        raise TranslationError("C11: canon.rs producer: `let values = ..` not found")
    st = statements(body)
    return norm(m.group(1)), st[-1]


def epilog():
    src = strip_comments(read(CANON))
    return statements(closure_body(src, "epilog_closure", CANON))


def from_values():
    src = strip_comments(read(CSTREAM))
    _, body = fn_parts(src, "from_values", CSTREAM)
    m = re.search(r"let\s+tetraplet\s*=\s*(.+?);", body, flags=re.S)
    if not m:
        raise TranslationError("C11: CanonStream::from_values: tetraplet not recognised")
    return norm(m.group(1))


def stream_iter():
    src = strip_comments(read(STREAM))
    _, body = fn_parts(src, "iter", STREAM)
    b = norm(body).replace(" ", "")
    m = re.fullmatch(r"self\.(\w+)\.iter\(\)\.chain\(self\.(\w+)\.iter\(\)\)\.chain\(self\.(\w+)\.iter\(\)\)", b)
    if not m:
        raise TranslationError("C11: Stream::iter: chain of the three sources not recognised: %r" % b)
    return [m.group(1), m.group(2), m.group(3)]


def canon_value_pos():
    src = strip_comments(read(CIDSTATE))
    _, body = fn_parts(src, "get_canon_value_by_cid", CIDSTATE)
    m = re.search(r"let\s+fake_trace_pos\s*=\s*(.+?);", body)
    if not m or not re.search(r"ValueAggregate::new\(\s*result,\s*tetraplet,\s*fake_trace_pos,\s*canon_aggregate\.provenance\.clone\(\),?\s*\)", body):
        raise TranslationError("C11: get_canon_value_by_cid: shape not recognised")
    return norm(m.group(1))


def generate():
    L = ["(* --- tools/genx_canon.py: the canon instruction (C11) --- *)"]
    src = strip_comments(read(UTILS))
    L.append("Definition c11_seen_dispatch : list (string * string) := %s." %
             coq_list(["(%s, %s)" % (coq_str(a), coq_str(b)) for a, b in seen_dispatch(src)]))
    g, e = unseen(src)
    L.append("Definition c11_unseen_guard : string * cmp_op * string := %s." % guard_term(g))
    L.append("Definition c11_unseen_else : string := %s." % coq_str(e))
    g, t, e = sent_by(src)
    L.append("Definition c11_sent_guard : string * cmp_op * string := %s." % guard_term(g))
    L.append("Definition c11_sent_then : list string := %s." % coq_list([coq_str(s) for s in t]))
    L.append("Definition c11_sent_else : string := %s." % coq_str(e))
    tp, ms, body = executed(src)
    L.append("Definition c11_executed_takes_producer : bool := %s." % ("true" if tp else "false"))
    L.append("Definition c11_executed_mentions_streams : bool := %s." % ("true" if ms else "false"))
    L.append("Definition c11_executed_body : list string := %s." % coq_list([coq_str(s) for s in body]))
    g, err = verify(src)
    L.append("Definition c11_verify_guard : string * cmp_op * string := %s." % guard_term(g))
    L.append("Definition c11_verify_error : string := %s." % coq_str(err))
    L.append("Definition c11_first_time_body : list string := %s." % coq_list([coq_str(s) for s in first_time(src)]))
    vc, agg = populate_unseen(src)
    L.append("Definition c11_unseen_value_cids : string := %s." % coq_str(vc))
    L.append("Definition c11_unseen_aggregate : string := %s." % coq_str(agg))
    L.append("Definition c11_canon_result_track_sites : list string := %s." % coq_list([coq_str(s) for s in track_sites()]))
    pv, pr = producer()
    L.append("Definition c11_producer_values : string := %s." % coq_str(pv))
    L.append("Definition c11_producer_result : string := %s." % coq_str(pr))
    L.append("Definition c11_from_values_tetraplet : string := %s." % coq_str(from_values()))
    L.append("Definition c11_epilog_body : list string := %s." % coq_list([coq_str(s) for s in epilog()]))
    L.append("Definition c11_stream_iter_chain : list string := %s." % coq_list([coq_str(s) for s in stream_iter()]))
    L.append("Definition c11_canon_value_pos : string := %s." % coq_str(canon_value_pos()))
    L.append("")
    return L


if __name__ == "__main__":
    print("\n".join(generate()))
