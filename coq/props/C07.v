(* props/C07.v -- re-delivering already merged data changes nothing.
   Only pinned statements, [exact], non-vacuity examples and Print Assumptions. *)
From Aqua Require Import Base Trace Handler MergeSpec MergeFull MergeLaws.
From Aqua Require SeqLocal NetLin NetLinCases NetLinProofs.
Open Scope N_scope.
Open Scope list_scope.

(* the whole property: every step of every honest history, the four re-delivery variants
   (stated over RunExec.run for every instantiation of its stream stage; NOT proved, see PARTIAL) *)
Definition C07_full : Prop :=
  forall es fs svc script init_peer timestamp ttl, C07_full_stmt es fs svc script init_peer timestamp ttl.

(* ---- the merge functions of the model are the decision tables found in /repo's sources today ---- *)
Theorem C07_source_tie : forall (C : Type) (ceqb : C -> C -> bool),
    merge_table_agrees_stmt C ceqb /\ merge_dispatch_agrees_stmt C ceqb.
Proof. exact (fun C ceqb => conj (merge_table_agrees C ceqb) (merge_dispatch_agrees C ceqb)). Qed.

(* ---- state level, for every type of content ids with a correct equality, all inputs ---- *)
Theorem C07_call_join_idem : forall (C : Type) (ceqb : C -> C -> bool), ceqb_correct ceqb -> call_join_idem_stmt C ceqb.
Proof. exact call_join_idem. Qed.
Theorem C07_call_join_absorb : forall (C : Type) (ceqb : C -> C -> bool), ceqb_correct ceqb -> call_join_absorb_stmt C ceqb.
Proof. exact call_join_absorb. Qed.
Theorem C07_canon_join_idem : forall (C : Type) (ceqb : C -> C -> bool), ceqb_correct ceqb -> canon_join_idem_stmt C ceqb.
Proof. exact canon_join_idem. Qed.
Theorem C07_canon_join_absorb : forall (C : Type) (ceqb : C -> C -> bool), ceqb_correct ceqb -> canon_join_absorb_stmt C ceqb.
Proof. exact canon_join_absorb. Qed.
(* ap states: the previous state wins and must carry exactly one generation *)
Theorem C07_ap_join_exact : ap_join_exact_stmt.
Proof. exact ap_join_exact. Qed.
Theorem C07_ap_join_idem : ap_join_idem_stmt.
Proof. exact ap_join_idem. Qed.
Theorem C07_ap_join_absorb : ap_join_absorb_stmt.
Proof. exact ap_join_absorb. Qed.
(* unconditional idempotence fails on ap states that no interpreter produces (no generation at all) *)
Theorem C07_ap_join_idem_naive_refuted : ~ ap_join_idem_naive_stmt.
Proof. exact ap_join_idem_naive_refuted. Qed.

(* the state-level join is what the mergers of the handler return for the two popped states *)
Theorem C07_merge_state_is_handler : forall (C : Type) (ceqb : C -> C -> bool), merge_state_is_handler_stmt C ceqb.
Proof. exact merge_state_is_handler. Qed.

(* ---- trace level (handler): call / canon / ap states under arbitrarily nested par states ---- *)
(* same trace on both sides: the handler re-emits it *)
Theorem C07_same_trace_partial : forall (C : Type) (ceqb : C -> C -> bool), ceqb_correct ceqb -> C07_same_trace_stmt C ceqb.
Proof. exact C07_same_trace. Qed.
(* nothing on the current side *)
Theorem C07_nothing_partial : forall (C : Type) (ceqb : C -> C -> bool), C07_nothing_stmt C ceqb.
Proof. exact C07_nothing. Qed.
(* pointwise join of traces of one shape: idempotent, absorbing *)
Theorem C07_tjoin_idem : forall (C : Type) (ceqb : C -> C -> bool), ceqb_correct ceqb -> tjoin_idem_stmt C ceqb.
Proof. exact tjoin_idem. Qed.
Theorem C07_tjoin_absorb : forall (C : Type) (ceqb : C -> C -> bool), ceqb_correct ceqb -> tjoin_absorb_stmt C ceqb.
Proof. exact tjoin_absorb. Qed.

(* ---------------- non-vacuity ---------------- *)
Example C07_string_ids_correct : ceqb_correct String.eqb.
Proof. exact String.eqb_eq. Qed.

Definition ex_forest : list (tree string) :=
  [TLeaf (SCall (Executed (VRScalar "c1")));
   TPar [TLeaf (SCall (RequestSentBy (SPeer "A"))); TLeaf (SAp [0]);
         TPar [TLeaf (SCall (Executed (VRStream "c2" 1)))] []]
        [TLeaf (SCanon (CanonExecuted "k1")); TLeaf (SCall (Failed "f1"))];
   TLeaf (SCall (Executed (VRUnused "u1")))].

Example C07_replay_example :
  forest_ok string ex_forest = true /\
  flatten string ex_forest =
    [SCall (Executed (VRScalar "c1")); SPar 4 2; SCall (RequestSentBy (SPeer "A")); SAp [0]; SPar 1 0;
     SCall (Executed (VRStream "c2" 1)); SCanon (CanonExecuted "k1"); SCall (Failed "f1");
     SCall (Executed (VRUnused "u1"))] /\
  (match replay string String.eqb ex_forest (handler_from string (flatten string ex_forest) (flatten string ex_forest)) with
   | Ok h => trace_eqb string String.eqb (result_trace string h) (flatten string ex_forest)
   | _ => false
   end) = true /\
  (match replay string String.eqb ex_forest (handler_from string (flatten string ex_forest) []) with
   | Ok h => trace_eqb string String.eqb (result_trace string h) (flatten string ex_forest)
   | _ => false
   end) = true.
Proof. vm_compute. repeat split. Qed.

(* absorption is not vacuous: a pending request absorbed by a result, then re-delivered *)
Example C07_absorb_example :
  merge_call string String.eqb (RequestSentBy (SPeer "A")) (Executed (VRScalar "c")) = Ok (Executed (VRScalar "c")) /\
  merge_call string String.eqb (Executed (VRScalar "c")) (RequestSentBy (SPeer "A")) = Ok (Executed (VRScalar "c")) /\
  merge_call string String.eqb (Executed (VRStream "c" 3)) (Executed (VRStream "c" 0)) = Ok (Executed (VRStream "c" 3)).
Proof. vm_compute. repeat split. Qed.

(* ---- history level, straight-line scripts on several peers (model/NetLin.v: the approximation invariant) ----
   In EVERY honest history of a straight-line script: after a peer has merged a particle, delivering that particle
   again -- or the merge result itself, or its own earlier data, or nothing -- runs to the same trace and the same
   last request id, requests nothing and forwards nothing (C07_full_stmt's conclusion, over SeqLocal's histories). *)
Theorem C07_linear_redelivery : forall svc init ts ttl,
    NetLin.lin_redelivery_changes_nothing svc init ts ttl RunExec.run1 /\
    NetLin.lin_redelivery_changes_nothing svc init ts ttl ExecStreams.run2.
Proof.
  intros. split; apply NetLinProofs.redelivery_gen; [apply NetLinProofs.run1_step | apply NetLinProofs.run2_step].
Qed.

(* non-vacuity: the re-delivery and the stale duplicate of the concrete history change no host's data *)
Example C07_linear_redelivery_example :
  NetLinCases.nlx_ops = [SeqLocal.OStart; SeqLocal.OAnswer "A" [1%N]; SeqLocal.ODeliver 0 true; SeqLocal.OAnswer "B" [1%N];
                         SeqLocal.OAnswer "B" [2%N]; SeqLocal.ODeliver 1 false; SeqLocal.ORedeliver 0; SeqLocal.ODeliver 0 false;
                         SeqLocal.OAnswer "A" [2%N]; SeqLocal.OStart] /\
  SeqLocal.n_hosts (NetLinCases.nlx_history 7) = SeqLocal.n_hosts (NetLinCases.nlx_history 6) /\
  SeqLocal.n_hosts (NetLinCases.nlx_history 8) = SeqLocal.n_hosts (NetLinCases.nlx_history 6) /\
  SeqLocal.n_hosts (NetLinCases.nlx_history 10) = SeqLocal.n_hosts (NetLinCases.nlx_history 9).
Proof. vm_compute. repeat split; reflexivity. Qed.

Print Assumptions C07_source_tie.
Print Assumptions C07_call_join_idem.
Print Assumptions C07_call_join_absorb.
Print Assumptions C07_canon_join_idem.
Print Assumptions C07_canon_join_absorb.
Print Assumptions C07_ap_join_exact.
Print Assumptions C07_ap_join_idem.
Print Assumptions C07_ap_join_absorb.
Print Assumptions C07_ap_join_idem_naive_refuted.
Print Assumptions C07_merge_state_is_handler.
Print Assumptions C07_same_trace_partial.
Print Assumptions C07_nothing_partial.
Print Assumptions C07_tjoin_idem.
Print Assumptions C07_tjoin_absorb.
Print Assumptions C07_linear_redelivery.
