(* props/C23.v -- the parser is total and accepts only well-scoped scripts.
   Only pinned statements, [exact], non-vacuity examples and Print Assumptions.
   The full scoping statements are REFUTED by the faithful model of the validator (witnesses: trees the real
   parser built and accepted); the *_partial theorems state what the validator does guarantee. *)
From Aqua Require Import Base Air Validator ValidatorProofs.
Open Scope N_scope.

(* (i) an accepted tree has no Error node: every grammar alternative that builds one also pushes to `errors`,
   and parse returns the tree only when `errors` is empty *)
Theorem C23_no_error_nodes : C23_no_error_nodes_stmt.
Proof. exact C23_no_error_nodes_holds. Qed.

(* the grammar-action table, the absence of other construction sites of Error nodes and the list of
   ParserError variants are the ones found in /repo's sources today *)
Theorem C23_source_tie :
  grammar_actions_disciplined = true /\ grammar_table_sane = true /\ parser_error_variants_agree = true.
Proof. exact source_tie_holds. Qed.

(* (ii) "every variable used is defined earlier or is an enclosing fold iterator" does NOT follow from acceptance *)
Theorem C23_refuted : exists t s, wf_layout t s /\ validate t s = Some [] /\ ~ well_scoped t.
Proof. exact C23_refuted_holds. Qed.
Theorem C23_scoped_full_refuted : ~ C23_scoped_full.
Proof. exact C23_scoped_full_false. Qed.
(* one witness per class of deviation *)
(* (seq (call "p" ("s" "f") [] xs) (seq (fold xs i (seq (null) (next i))) (call "p" ("s" "f") [i]))) *)
Theorem C23_refuted_iterator_used_outside_fold : refutes_scoping wit_iterator.
Proof. exact wit_iterator_refutes. Qed.
(* (match x 1 (new x (call "p" ("s" "f") [x]))) *)
Theorem C23_refuted_first_only_check : refutes_scoping wit_first_only.
Proof. exact wit_first_only_refutes. Qed.
(* (fail x) *)
Theorem C23_refuted_unvisited_fail : refutes_scoping wit_unvisited_fail.
Proof. exact wit_unvisited_fail_refutes. Qed.
(* (ap ("k" x) %m) *)
Theorem C23_refuted_unvisited_ap_map_value : refutes_scoping wit_unvisited_apmap.
Proof. exact wit_unvisited_apmap_refutes. Qed.
(* (canon x $s #c1) *)
Theorem C23_refuted_unvisited_canon_peer : refutes_scoping wit_unvisited_canon_peer.
Proof. exact wit_unvisited_canon_peer_refutes. Qed.
(* (call "p" ("s" "f") [:error:.$.[x]]) *)
Theorem C23_refuted_unvisited_error_lens : refutes_scoping wit_unvisited_error_lens.
Proof. exact wit_unvisited_error_lens_refutes. Qed.

(* what acceptance does guarantee: every variable read by a call or an ap instruction (triplet, arguments, ap
   argument, map key, scalars inside their lenses) has a definition site earlier in the text, or SOME fold on
   that name starts earlier *)
Theorem C23_scoped_partial :
  forall t s, wf_layout t s -> validate t s = Some [] ->
  forall u, In u (uses t) -> leaf_checked_site (o_site u) = true ->
  exists p, o_pos u = Some p /\
    ((exists d, In d (defs t) /\ fst d = o_name u /\ snd d < p) \/
     (exists f, In f (folds t) /\ fst f = o_name u /\ sp_left (snd f) < p)).
Proof. exact C23_scoped_partial_holds. Qed.

(* (iii) "every next refers to an enclosing fold" does NOT follow either *)
(* (seq (call "p" ("s" "f") [] xs) (seq (fold xs i (seq (null) (next i))) (next i))) *)
Theorem C23_next_refuted : refutes_next wit_next ("i"%string, 77).
Proof. exact wit_next_refutes. Qed.
Theorem C23_next_full_refuted : ~ C23_next_full.
Proof. exact C23_next_full_false. Qed.
(* only the textually first next of each iterator name is inside a fold on that name *)
Theorem C23_next_partial :
  forall t s, wf_layout t s -> validate t s = Some [] ->
  forall n, In n (nexts t) -> (forall m, In m (nexts t) -> fst m = fst n -> snd n <= snd m) -> next_scoped t n.
Proof. exact C23_next_partial_holds. Qed.

(* non-vacuity *)
(* (seq (call "p" ("s" "f") [] xs) (fold xs i (seq (call "p" ("s" "f") [i xs] y) (next i)))): accepted, well scoped,
   has checked uses and a next, so the partial theorems speak about it *)
Example C23_accepts_a_scoped_script :
  accepted_by_model wit_good = true /\ well_scoped_b (fst wit_good) = true /\
  existsb (fun u => leaf_checked_site (o_site u)) (uses (fst wit_good)) = true /\
  length (nexts (fst wit_good)) = 1%nat.
Proof. vm_compute. repeat split. Qed.
(* (seq (call "p" ("s" "f") [y]) (next i)): rejected with exactly an undefined variable and an undefined iterable *)
Example C23_rejects_an_unscoped_script :
  option_map (map ve_kind) (validate (fst wit_bad) (snd wit_bad)) = Some [KUndefinedVariable; KUndefinedIterable] /\
  well_scoped_b (fst wit_bad) = false.
Proof. vm_compute. repeat split. Qed.
Example C23_filter_nonvacuous :
  parse_filter (Some INull) 0 [] = Some INull /\ parse_filter (Some IError) 1 [] = None /\
  err_nodes (ISeq IError INull) = 1%nat /\ grammar_recovery_alternatives = 3.
Proof. vm_compute. repeat split. Qed.

Print Assumptions C23_no_error_nodes.
Print Assumptions C23_source_tie.
Print Assumptions C23_refuted.
Print Assumptions C23_scoped_full_refuted.
Print Assumptions C23_refuted_iterator_used_outside_fold.
Print Assumptions C23_refuted_first_only_check.
Print Assumptions C23_refuted_unvisited_fail.
Print Assumptions C23_refuted_unvisited_ap_map_value.
Print Assumptions C23_refuted_unvisited_canon_peer.
Print Assumptions C23_refuted_unvisited_error_lens.
Print Assumptions C23_scoped_partial.
Print Assumptions C23_next_refuted.
Print Assumptions C23_next_full_refuted.
Print Assumptions C23_next_partial.
