#!/bin/sh
# usage: tools/seed_confirm.sh <tag> <seeded-id> <demo-file> <dest path in tree> <crate> <test name>
# Confirms a sub-agent's seeded change in a fresh scratch worktree: demo passes without / fails with the patch,
# the workspace compiles and the repository's test suite still matches the baseline; then stores it as /verif/seeded/<id>/.
TAG=$1; ID=$2; DEMO=$3; DEST=$4; CRATE=$5; TEST=$6
OUT=/tmp/mut_$TAG/out
V=/verif
WT=/tmp/seedconf/wt_$TAG
export CARGO_NET_OFFLINE=true CARGO_TARGET_DIR=${SEED_TARGET:-/tmp/repo_target}
mkdir -p /tmp/seedconf $V/seeded/$ID
LOG=$V/seeded/$ID/confirm.log
: > $LOG
git -C /repo worktree remove --force $WT 2>/dev/null
git -C /repo worktree add $WT HEAD >> $LOG 2>&1 || exit 2
mkdir -p $WT/$(dirname $DEST); cp $OUT/demo/$DEMO $WT/$DEST
cd $WT
echo "== demo WITHOUT the patch (must pass)" >> $LOG
timeout 3000 cargo test -p $CRATE --test $TEST --offline > /tmp/seedconf/$TAG.without.log 2>&1; RC1=$?
grep -E "^test |test result" /tmp/seedconf/$TAG.without.log >> $LOG; echo "exit $RC1" >> $LOG
git apply $OUT/patch.diff >> $LOG 2>&1 || { echo "PATCH DOES NOT APPLY" >> $LOG; }
echo "== demo WITH the patch (must fail)" >> $LOG
timeout 3000 cargo test -p $CRATE --test $TEST --offline > /tmp/seedconf/$TAG.with.log 2>&1; RC2=$?
grep -E "^test |test result" /tmp/seedconf/$TAG.with.log >> $LOG; echo "exit $RC2" >> $LOG
echo "== repository test suite WITH the patch (demo file removed)" >> $LOG
rm -f $WT/$DEST
timeout 3400 cargo test --workspace --no-fail-fast --offline > /tmp/seedconf/$TAG.suite.log 2>&1
python3 $V/tools/check_repo_tests.py /tmp/seedconf/$TAG.suite.log >> $LOG 2>&1
cd /; git -C /repo worktree remove --force $WT
cp $OUT/patch.diff $V/seeded/$ID/patch.diff
mkdir -p $V/seeded/$ID/demo; cp $OUT/demo/$DEMO $OUT/demo/README $V/seeded/$ID/demo/ 2>/dev/null
cp $OUT/meta.json $V/seeded/$ID/meta.agent.json 2>/dev/null
echo "SUMMARY $ID: demo without rc=$RC1 (want 0), with rc=$RC2 (want !=0)" >> $LOG
tail -8 $LOG
