(* StreamPosProofs.v -- the stream-position invariant (model/StreamPosSpec.v): proofs.

   Reused: the trace-handler lemmas of proofs/SignProofs.v (handler_ok, the _spec and _ok lemmas), the plan
   algebra of proofs/DetProofs.v (scomp_char, plans_seq_crash, plans_seq_updates), the local half of compactify_total of
   proofs/CodesProofs.v (apply_updates_ok) and the stream lemmas of proofs/StreamProofs.v. *)
From Coq Require Import Lia Permutation.
From Aqua Require Import Base Json Air Trace Handler Values Scalars Lens Exec RunExec ExecStreams.
From Aqua Require Import StreamPosSpec.
From Aqua Require Stream StreamProofs SignSpec SignProofs CodesSpec CodesProofs DetSpec DetProofs.
Open Scope N_scope.
Open Scope list_scope.

(* ------------------------------------------------------------------------------------------ *)
(* 0. sub-multisets *)

Definition submset {A} (l' l : list A) : Prop := exists r, Permutation l (l' ++ r).

Lemma submset_refl {A} (l : list A) : submset l l.
Proof. exists []. rewrite app_nil_r. reflexivity. Qed.
Lemma submset_perm {A} (l l' : list A) : Permutation l' l -> submset l' l.
Proof. intros H. exists []. rewrite app_nil_r. symmetry. exact H. Qed.
Lemma submset_trans {A} (a b c : list A) : submset a b -> submset b c -> submset a c.
Proof. intros [r1 H1] [r2 H2]. exists (r1 ++ r2). rewrite H2, H1, app_assoc. reflexivity. Qed.
Lemma submset_nil {A} (l : list A) : submset [] l.
Proof. exists l. reflexivity. Qed.
Lemma submset_app {A} (a a' b b' : list A) : submset a a' -> submset b b' -> submset (a ++ b) (a' ++ b').
Proof.
  intros [r1 H1] [r2 H2]. exists (r1 ++ r2). rewrite H1, H2, <- !app_assoc. apply Permutation_app_head.
  rewrite !app_assoc. apply Permutation_app_tail. apply Permutation_app_comm.
Qed.
Lemma submset_cons_r {A} (v : A) l' l : submset l' l -> submset l' (v :: l).
Proof. intros [r H]. exists (v :: r). rewrite H. apply Permutation_middle. Qed.
Lemma submset_app_l {A} (a b : list A) : submset a (a ++ b).
Proof. exists b. reflexivity. Qed.
Lemma submset_app_r {A} (a b : list A) : submset b (a ++ b).
Proof. exists a. apply Permutation_app_comm. Qed.
Lemma submset_in {A} (l' l : list A) v : submset l' l -> In v l' -> In v l.
Proof. intros [r H] Hv. apply (Permutation_in _ (Permutation_sym H)). apply in_or_app. left. exact Hv. Qed.
Lemma submset_map {A B} (f : A -> B) l' l : submset l' l -> submset (map f l') (map f l).
Proof. intros [r H]. exists (map f r). rewrite <- map_app. apply Permutation_map. exact H. Qed.
Lemma nodup_app_l {A} (l r : list A) : NoDup (l ++ r) -> NoDup l.
Proof.
  induction l as [|a l IH]; cbn [app]; intros N; [constructor|]. inversion N as [|? ? Hn N']; subst.
  constructor; [|apply IH, N']. intros Hin. apply Hn. apply in_or_app. left. exact Hin.
Qed.
Lemma submset_nodup {A} (l' l : list A) : submset l' l -> NoDup l -> NoDup l'.
Proof. intros [r H] N. apply (Permutation_NoDup H) in N. apply nodup_app_l in N. exact N. Qed.
Lemma submset_length {A} (l' l : list A) : submset l' l -> (length l' <= length l)%nat.
Proof. intros [r H]. rewrite (Permutation_length H), app_length. lia. Qed.
Lemma submset_flat_map {A B} (f g : A -> list B) l :
  (forall a, In a l -> submset (f a) (g a)) -> submset (flat_map f l) (flat_map g l).
Proof.
  induction l as [|a l IH]; intros H; cbn [flat_map]; [apply submset_refl|].
  apply submset_app; [apply H; left; reflexivity|apply IH; intros b Hb; apply H; right; exact Hb].
Qed.
Lemma submset_flat_map_filter {A B} (f : A -> list B) (p : A -> bool) l : submset (flat_map f (filter p l)) (flat_map f l).
Proof.
  induction l as [|a l IH]; cbn [filter flat_map]; [apply submset_refl|]. destruct (p a); cbn [flat_map].
  - apply submset_app; [apply submset_refl|exact IH].
  - eapply submset_trans; [exact IH|apply submset_app_r].
Qed.
(* a middle segment is replaced by a sub-multiset of itself plus extras E *)
Lemma submset_mid {A} (E a b x y : list A) : submset x (E ++ y) -> submset (a ++ x ++ b) (E ++ a ++ y ++ b).
Proof.
  intros H. apply (submset_trans _ (a ++ (E ++ y) ++ b)).
  - apply submset_app; [apply submset_refl|]. apply submset_app; [exact H|apply submset_refl].
  - apply submset_perm. rewrite <- app_assoc. apply Permutation_app_swap_app.
Qed.

(* ------------------------------------------------------------------------------------------ *)
(* 1. positions of the result trace that hold an Ap / stream Call state *)

Definition is_gen (st : state cid) : bool :=
  match st with SAp _ => true | SCall (Executed (VRStream _ _)) => true | _ => false end.

Lemma gen_at_nth tr p : gen_at tr p <-> exists st, Trace.nth_N tr p = Some st /\ is_gen st = true.
Proof.
  unfold gen_at, CodesSpec.gen_state_at. split.
  - destruct (Trace.nth_N tr p) as [st|]; [|discriminate]. intros H. exists st. split; [reflexivity|].
    destruct st as [| [|[]|] | | |]; cbn; try discriminate; reflexivity.
  - intros (st & -> & H). destruct st as [| [|[]|] | | |]; cbn in *; try discriminate; reflexivity.
Qed.

Lemma nth_N_lt {A} (l : list A) p a : Trace.nth_N l p = Some a -> p < len_N l /\ nth_error l (N.to_nat p) = Some a.
Proof. unfold Trace.nth_N, len_N. destruct (N.ltb_spec p (N.of_nat (length l))); [auto|discriminate]. Qed.
Lemma nth_N_of_error {A} (l : list A) p a : nth_error l (N.to_nat p) = Some a -> Trace.nth_N l p = Some a.
Proof.
  intros H. unfold Trace.nth_N. assert (N.to_nat p < length l)%nat as L by (apply nth_error_Some; congruence).
  destruct (N.ltb_spec p (N.of_nat (length l))); [exact H|lia].
Qed.

Lemma gen_at_lt tr p : gen_at tr p -> p < len_N tr.
Proof. rewrite gen_at_nth. intros (st & H & _). apply nth_N_lt in H. tauto. Qed.

Theorem gen_at_spec : gen_at_spec_stmt.
Proof.
  intros tr p. rewrite gen_at_nth. split.
  - intros (st & H & G). apply nth_N_lt in H as [L H]. split; [exact L|]. exists st. split; [exact H|].
    destruct st as [| [|[]|] | | |]; cbn in G; try discriminate; eauto.
  - intros (L & st & H & [[g ->]|(c & g & ->)]); eexists; (split; [apply nth_N_of_error; exact H|reflexivity]).
Qed.

Definition tr_mono (tr tr' : list (state cid)) : Prop := forall p, gen_at tr p -> gen_at tr' p.
Lemma tr_mono_refl tr : tr_mono tr tr. Proof. intros p H. exact H. Qed.
Lemma tr_mono_trans a b c : tr_mono a b -> tr_mono b c -> tr_mono a c.
Proof. intros H1 H2 p H. auto. Qed.

Lemma nth_N_push_old {A} (l : list A) a p : p < len_N l -> Trace.nth_N (l ++ [a]) p = Trace.nth_N l p.
Proof.
  unfold Trace.nth_N, len_N. intros L. rewrite app_length. cbn [length].
  destruct (N.ltb_spec p (N.of_nat (length l))); [|lia]. destruct (N.ltb_spec p (N.of_nat (length l + 1))); [|lia].
  apply nth_error_app1. lia.
Qed.
Lemma nth_N_push_new {A} (l : list A) a : Trace.nth_N (l ++ [a]) (len_N l) = Some a.
Proof.
  unfold Trace.nth_N, len_N. rewrite app_length. cbn [length].
  destruct (N.ltb_spec (N.of_nat (length l)) (N.of_nat (length l + 1))); [|lia].
  rewrite Nnat.Nat2N.id, nth_error_app2 by lia. rewrite Nat.sub_diag. reflexivity.
Qed.

Lemma tr_mono_push tr st : tr_mono tr (tr ++ [st]).
Proof.
  intros p H. pose proof (gen_at_lt _ _ H) as L. rewrite gen_at_nth in *. rewrite nth_N_push_old by exact L. exact H.
Qed.
Lemma gen_at_new tr st : is_gen st = true -> gen_at (tr ++ [st]) (len_N tr).
Proof. intros G. rewrite gen_at_nth. exists st. split; [apply nth_N_push_new|exact G]. Qed.

Lemma struct_not_gen st : SignSpec.is_struct st = true -> is_gen st = true -> False.
Proof. destruct st as [| [|[]|] | | |]; cbn; discriminate. Qed.

(* StateInserter::insert overwrites a placeholder: no Ap / stream Call state is lost *)
Lemma tr_mono_set_struct tr q new : SignSpec.struct_at tr q -> tr_mono tr (set_nth tr (N.to_nat q) new).
Proof.
  intros S p H. rewrite gen_at_nth in *. destruct H as (st & H & G). exists st. split; [|exact G].
  rewrite CodesProofs.nth_N_set_nth. destruct (N.eqb_spec q p) as [->|_]; [|exact H].
  exfalso. apply nth_N_lt in H as [_ H]. unfold SignSpec.struct_at in S. rewrite H in S. eapply struct_not_gen; eauto.
Qed.

(* ---- every trace-handler operation is monotone ---- *)
Definition hmono (h h' : handler cid) : Prop := tr_mono (result_trace cid h) (result_trace cid h').

Lemma hmono_same h h' : result_trace cid h' = result_trace cid h -> hmono h h'.
Proof. unfold hmono. intros ->. apply tr_mono_refl. Qed.
Lemma hmono_push h h' st : result_trace cid h' = result_trace cid h ++ [st] -> hmono h h'.
Proof. unfold hmono. intros ->. apply tr_mono_push. Qed.

Lemma meet_par_subgraph_end_mono h h' sg :
  meet_par_subgraph_end cid h sg = Ok h' -> SignSpec.handler_ok h -> hmono h h'.
Proof.
  unfold meet_par_subgraph_end. destruct (h_pars cid h) as [|f rest] eqn:P; [discriminate|]. intros H [A B].
  rewrite P in A. inversion A as [|? ? Af Ar]; subst. destruct sg.
  - destruct (par_left_completed cid f (h_keeper cid h)) as [[f1 k']| |] eqn:E; cbn [Handler.bind] in H; try discriminate.
    injection H as <-. apply SignProofs.par_left_completed_spec in E as [R I]. apply hmono_same. unfold result_trace. cbn. exact R.
  - destruct (par_right_completed cid f (h_keeper cid h)) as [k'| |] eqn:E; cbn [Handler.bind] in H; try discriminate.
    injection H as <-. apply SignProofs.par_right_completed_spec in E as (l & r & R). unfold hmono, result_trace in *. cbn. rewrite R.
    apply tr_mono_set_struct. exact Af.
Qed.

Lemma meet_fold_start_trace h h' id : Handler.meet_fold_start cid h id = Ok h' ->
  result_trace cid h' = result_trace cid h ++ [SPar 0 0].
Proof.
  unfold Handler.meet_fold_start. intros H.
  destruct (try_merge_next_state_as_fold cid (h_keeper cid h)) as [[[rp rc] k1]| |] eqn:E; cbn [Handler.bind] in H; try discriminate.
  destruct (fold_from_start cid rp rc k1) as [[f k2]| |] eqn:E2; cbn [Handler.bind] in H; try discriminate.
  injection H as <-. apply SignProofs.try_merge_fold_result in E. apply SignProofs.fold_from_start_spec in E2 as [R I].
  unfold result_trace. cbn [h_keeper snd]. rewrite R, E. reflexivity.
Qed.

Lemma meet_iteration_start_trace h h' id vp : meet_iteration_start cid h id vp = Ok h' -> result_trace cid h' = result_trace cid h.
Proof.
  unfold meet_iteration_start. destruct (folds_get (h_folds cid h) id) as [f|]; [|discriminate].
  destruct (fold_iteration_start cid f vp (h_keeper cid h)) as [[f' k']| |] eqn:E; cbn [Handler.bind]; try discriminate.
  intros [= <-]. apply SignProofs.fold_iteration_start_spec in E as [I R]. unfold result_trace. cbn. exact R.
Qed.
Lemma meet_iteration_end_trace h h' id : meet_iteration_end cid h id = Ok h' -> result_trace cid h' = result_trace cid h.
Proof.
  unfold meet_iteration_end. destruct (folds_get (h_folds cid h) id) as [f|]; [|discriminate].
  destruct (fold_iteration_end cid f (h_keeper cid h)) as [f'| |]; cbn [Handler.bind]; try discriminate.
  intros [= <-]. reflexivity.
Qed.
Lemma meet_back_iterator_trace h h' id : meet_back_iterator cid h id = Ok h' -> result_trace cid h' = result_trace cid h.
Proof.
  unfold meet_back_iterator. destruct (folds_get (h_folds cid h) id) as [f|]; [|discriminate].
  destruct (fold_back_iterator cid f (h_keeper cid h)) as [[f' k']| |] eqn:E; cbn [Handler.bind]; try discriminate.
  intros [= <-]. apply SignProofs.fold_back_iterator_spec in E as [I R]. unfold result_trace. cbn. exact R.
Qed.
Lemma meet_generation_end_trace h h' id : meet_generation_end cid h id = Ok h' -> result_trace cid h' = result_trace cid h.
Proof.
  unfold meet_generation_end. destruct (folds_get (h_folds cid h) id) as [f|]; [|discriminate].
  destruct (fold_generation_end cid f (h_keeper cid h)) as [f'| |]; cbn [Handler.bind]; try discriminate.
  intros [= <-]. reflexivity.
Qed.

Lemma meet_fold_end_mono h h' id : Handler.meet_fold_end cid h id = Ok h' -> SignSpec.handler_ok h -> hmono h h'.
Proof.
  unfold Handler.meet_fold_end. destruct (folds_get (h_folds cid h) id) as [f|] eqn:G; [|discriminate]. intros H [A B].
  destruct (fold_end cid f (h_keeper cid h)) as [k1| |] eqn:E; cbn [Handler.bind] in H; try discriminate. injection H as <-.
  unfold fold_end in E. destruct (insert_state cid (h_keeper cid h) _ _) as [k0| |] eqn:E0; cbn [Handler.bind] in E; try discriminate.
  apply SignProofs.update_ctx_states_result in E. apply SignProofs.insert_state_spec in E0 as [E0 _].
  destruct (SignProofs.folds_get_in _ _ _ G) as [a Ha]. rewrite Forall_forall in B. pose proof (B _ Ha) as Sf. cbn [snd] in Sf.
  unfold hmono, result_trace in *. cbn [h_keeper]. rewrite E, E0. apply tr_mono_set_struct. exact Sf.
Qed.

Lemma update_generation_mono h h' p g : update_generation cid h p g = inl h' -> hmono h h'.
Proof.
  intros H. assert (gen_at (result_trace cid h) p) as G.
  { unfold gen_at, CodesSpec.gen_state_at, result_trace. unfold update_generation in H. cbv zeta in H.
    destruct (Trace.nth_N (k_result cid (h_keeper cid h)) p) as [st|]; [|discriminate].
    destruct st as [| [|[]|] | | |]; try discriminate; reflexivity. }
  destruct (CodesProofs.update_generation_ok h p g G) as (h2 & E & K). rewrite E in H. injection H as <-.
  intros q Q. unfold gen_at in *. rewrite K. exact Q.
Qed.

(* ------------------------------------------------------------------------------------------ *)
(* 2. the stream tables: how each operation of Stream.v moves the values *)

Local Notation streams := (Stream.streams vagg).
Local Notation siter := (Stream.stream_iter vagg).
Local Notation ssize := (Stream.stream_size vagg).
Local Notation keys := (Stream.streams_keys vagg).
Local Notation d_stream := (@Stream.d_stream vagg).

Lemma tbl_values_cons k ds (t : streams) : tbl_values ((k, ds) :: t) = descs_values ds ++ tbl_values t.
Proof. reflexivity. Qed.
Lemma descs_values_cons d ds : descs_values (d :: ds) = siter (d_stream d) ++ descs_values ds.
Proof. reflexivity. Qed.
Lemma descs_values_app a b : descs_values (a ++ b) = descs_values a ++ descs_values b.
Proof. unfold descs_values. apply flat_map_app. Qed.
Lemma descs_values_rev ds : Permutation (descs_values (rev ds)) (descs_values ds).
Proof. unfold descs_values. apply Permutation_flat_map. symmetry. apply Permutation_rev. Qed.

Lemma map_get_in (m : streams) name ds : Stream.map_get vagg m name = Some ds -> In (name, ds) m.
Proof.
  induction m as [|[k d0] t IH]; cbn [Stream.map_get]; [discriminate|]. destruct (String.eqb k name) eqn:E.
  - intros [= ->]. apply String.eqb_eq in E. subst. left. reflexivity.
  - intros H. right. apply IH, H.
Qed.

Lemma map_insert_present (m : streams) name ds ds' : Stream.map_get vagg m name = Some ds ->
  exists a b, tbl_values m = a ++ descs_values ds ++ b /\
              tbl_values (Stream.map_insert vagg m name ds') = a ++ descs_values ds' ++ b.
Proof.
  induction m as [|[k d0] t IH]; cbn [Stream.map_get Stream.map_insert]; [discriminate|]. destruct (String.eqb k name).
  - intros [= ->]. exists [], (tbl_values t). rewrite !tbl_values_cons. split; reflexivity.
  - intros H. destruct (IH H) as (a & b & E1 & E2). exists (descs_values d0 ++ a), b.
    rewrite !tbl_values_cons, E1, E2, <- !app_assoc. split; reflexivity.
Qed.
Lemma map_insert_absent (m : streams) name ds' : Stream.map_get vagg m name = None ->
  tbl_values (Stream.map_insert vagg m name ds') = tbl_values m ++ descs_values ds' /\
  keys (Stream.map_insert vagg m name ds') = keys m ++ [name].
Proof.
  unfold Stream.streams_keys.
  induction m as [|[k d0] t IH]; cbn [Stream.map_get Stream.map_insert].
  - intros _. cbn. rewrite app_nil_r. auto.
  - destruct (String.eqb k name); [discriminate|]. intros H. destruct (IH H) as [E1 E2].
    rewrite !tbl_values_cons, E1, <- app_assoc. cbn [map fst]. rewrite E2. auto.
Qed.

Lemma keys_insert (m : streams) name ds' : NoDup (keys m) -> NoDup (keys (Stream.map_insert vagg m name ds')).
Proof.
  intros N. destruct (Stream.map_get vagg m name) as [ds|] eqn:G.
  - rewrite (DetProofs.keys_insert_present _ _ _ _ ds' G). exact N.
  - destruct (map_insert_absent m name ds' G) as [_ ->]. apply DetProofs.NoDup_app_single; [exact N|].
    apply (DetProofs.map_get_none_notin _ _ _ G).
Qed.

Lemma in_map_insert (m : streams) name ds' k ds : In (k, ds) (Stream.map_insert vagg m name ds') -> In (k, ds) m \/ ds = ds'.
Proof.
  induction m as [|[k0 d0] t IH]; cbn [Stream.map_insert].
  - intros [[= _ <-]|[]]. right. reflexivity.
  - destruct (String.eqb k0 name).
    + intros [[= _ <-]|H]; [right; reflexivity|left; right; exact H].
    + intros [H|H]; [left; left; exact H|]. destruct (IH H) as [H'|H']; [left; right; exact H'|right; exact H'].
Qed.
Lemma small_insert (m : streams) name ds' :
  tbl_small m -> (forall d, In d ds' -> stream_small (d_stream d)) -> tbl_small (Stream.map_insert vagg m name ds').
Proof.
  intros S S' k ds d Hk Hd. destruct (in_map_insert _ _ _ _ _ Hk) as [H| ->]; [eapply S; eauto|apply S', Hd].
Qed.

(* replacing the descriptors of a present name *)
Lemma insert_sub (m : streams) name ds ds' E : Stream.map_get vagg m name = Some ds ->
  submset (descs_values ds') (E ++ descs_values ds) ->
  submset (tbl_values (Stream.map_insert vagg m name ds')) (E ++ tbl_values m).
Proof.
  intros G H. destruct (map_insert_present m name ds ds' G) as (a & b & -> & ->). apply submset_mid, H.
Qed.

(* map_remove *)
Lemma map_remove_spec (m : streams) name :
  submset (tbl_values (Stream.map_remove vagg m name)) (tbl_values m) /\
  (NoDup (keys m) -> NoDup (keys (Stream.map_remove vagg m name))) /\
  (forall k ds, In (k, ds) (Stream.map_remove vagg m name) -> In (k, ds) m).
Proof.
  unfold Stream.streams_keys. induction m as [|[k0 d0] t (IH1 & IH2 & IH3)]; cbn [Stream.map_remove].
  - split; [apply submset_refl|]. split; auto.
  - destruct (String.eqb k0 name).
    + split; [rewrite tbl_values_cons; eapply submset_trans; [exact IH1|apply submset_app_r]|].
      split; [cbn [map fst]; intros N; inversion N; auto|]. intros k ds H. right. apply IH3, H.
    + split; [rewrite !tbl_values_cons; apply submset_app; [apply submset_refl|exact IH1]|]. split.
      * cbn [map fst]. intros N. inversion N as [|? ? Hn N']; subst. constructor; [|auto].
        intros Hin. apply Hn. apply in_map_iff in Hin as ([k ds] & <- & Hin). apply IH3 in Hin. apply (in_map fst) in Hin. exact Hin.
      * intros k ds [H|H]; [left; exact H|right; apply IH3, H].
Qed.

(* find_closest / update_closest on the reversed descriptor vector *)
Lemma update_closest_rev_spec (l : list (Stream.descriptor vagg)) p s d : Stream.find_closest_rev vagg l p = Some d ->
  In d l /\
  (exists a b, descs_values l = a ++ siter (d_stream d) ++ b /\
               descs_values (Stream.update_closest_rev vagg l p s) = a ++ siter s ++ b) /\
  (forall d', In d' (Stream.update_closest_rev vagg l p s) -> In d' l \/ d_stream d' = s).
Proof.
  induction l as [|d0 t IH]; cbn [Stream.find_closest_rev Stream.update_closest_rev]; [discriminate|].
  destruct (Stream.contains_position (Stream.d_span d0) p).
  - intros [= ->]. split; [left; reflexivity|]. split.
    + exists [], (descs_values t). rewrite !descs_values_cons. cbn [app Stream.d_stream]. auto.
    + intros d' [<-|H]; [right; reflexivity|left; right; exact H].
  - intros H. destruct (IH H) as (I & (a & b & E1 & E2) & K). split; [right; exact I|]. split.
    + exists (siter (d_stream d0) ++ a), b. rewrite !descs_values_cons, E1, E2, <- !app_assoc. auto.
    + intros d' [<-|H']; [left; left; reflexivity|]. destruct (K _ H') as [H''|H'']; [left; right; exact H''|right; exact H''].
Qed.

(* Streams::get then a write through get_mut *)
Lemma streams_set_spec (m : streams) name p s s' E : Stream.streams_get vagg m name p = Some s ->
  submset (siter s') (E ++ siter s) ->
  submset (tbl_values (Stream.streams_set vagg m name p s')) (E ++ tbl_values m) /\
  (NoDup (keys m) -> NoDup (keys (Stream.streams_set vagg m name p s'))) /\
  (tbl_small m -> stream_small s' -> tbl_small (Stream.streams_set vagg m name p s')) /\
  (tbl_small m -> stream_small s).
Proof.
  unfold Stream.streams_get, Stream.streams_set. destruct (Stream.map_get vagg m name) as [ds|] eqn:G; [|discriminate].
  unfold Stream.find_closest, Stream.update_closest.
  destruct (Stream.find_closest_rev vagg (rev ds) p) as [d|] eqn:F; cbn [option_map]; [|discriminate]. intros [= <-] H.
  destruct (update_closest_rev_spec (rev ds) p s' d F) as (I & (a & b & E1 & E2) & K).
  apply in_rev in I. split; [|split; [|split]].
  - apply (insert_sub m name ds _ E G). eapply submset_trans; [apply submset_perm, descs_values_rev|]. rewrite E2.
    eapply submset_trans; [apply submset_mid, H|]. apply submset_perm. apply Permutation_app_head.
    rewrite <- E1. apply descs_values_rev.
  - apply keys_insert.
  - intros S S'. apply small_insert; [exact S|]. intros d' Hd'. apply in_rev in Hd'. destruct (K _ Hd') as [H'| ->]; [|exact S'].
    apply in_rev in H'. apply (S name ds d' (map_get_in _ _ _ G) H').
  - intros S. apply (S name ds d (map_get_in _ _ _ G) I).
Qed.

(* Stream::add_value *)
Lemma lenN_le_of_submset {A} (l' l : list A) : submset l' l -> Stream.lenN l' <= Stream.lenN l.
Proof. intros H. apply submset_length in H. unfold Stream.lenN. lia. Qed.

Lemma stream_add_small s v g s1 : stream_small s -> Stream.stream_add_value vagg s v g = Stream.SOk s1 ->
  stream_small s1 /\ Permutation (siter s1) (v :: siter s).
Proof.
  intros [L _] H. pose proof (StreamProofs.stream_add_perm _ _ _ _ _ H) as P. split; [|exact P]. split.
  - rewrite (StreamProofs.stream_add_size _ _ _ _ _ H). unfold Stream.lenN in *. rewrite (Permutation_length P). cbn [length]. lia.
  - apply (StreamProofs.stream_add_inv _ _ _ _ _ H).
Qed.
Lemma stream_new_small : stream_small (Stream.stream_new vagg).
Proof. split; [cbn; lia|]. vm_compute. reflexivity. Qed.

(* Streams::add_stream_value *)
Lemma add_stream_value_spec (m m' : streams) name v g p :
  Stream.streams_add_stream_value vagg m name v g p = Stream.SOk m' -> NoDup (keys m) -> tbl_small m ->
  submset (tbl_values m') (v :: tbl_values m) /\ NoDup (keys m') /\ tbl_small m'.
Proof.
  unfold Stream.streams_add_stream_value. intros H N S.
  destruct (Stream.streams_get vagg m name p) as [s|] eqn:G.
  - destruct (Stream.stream_add_value vagg s v g) as [s1| |] eqn:A; cbn [Stream.sbind] in H; try discriminate. injection H as <-.
    assert (submset (siter s1) ([v] ++ siter s)) as Hs.
    { apply submset_perm. apply (StreamProofs.stream_add_perm _ _ _ _ _ A). }
    destruct (streams_set_spec m name p s s1 [v] G Hs) as (V & K & Sm & Ss).
    destruct (stream_add_small s v g s1 (Ss S) A) as [S1 _]. auto.
  - destruct (Stream.stream_add_value vagg (Stream.stream_new vagg) v g) as [s1| |] eqn:A; cbn [Stream.sbind] in H; try discriminate.
    injection H as <-. destruct (stream_add_small _ v g s1 stream_new_small A) as [S1 P1]. cbn [siter] in P1.
    assert (Permutation (descs_values [Stream.descriptor_global vagg s1]) [v]) as Pd.
    { rewrite descs_values_cons. cbn [Stream.d_stream Stream.descriptor_global descs_values flat_map]. rewrite app_nil_r. exact P1. }
    split; [|split; [apply keys_insert, N|]].
    + destruct (Stream.map_get vagg m name) as [ds|] eqn:Gm.
      * apply (insert_sub m name ds _ [v] Gm). eapply submset_trans; [apply submset_perm, Pd|]. apply submset_app_l.
      * destruct (map_insert_absent m name [Stream.descriptor_global vagg s1] Gm) as [-> _].
        apply submset_perm. rewrite Pd. symmetry. apply Permutation_cons_append.
    + apply small_insert; [exact S|]. intros d [<-|[]]. exact S1.
Qed.

(* Streams::meet_scope_start *)
Lemma scope_start_spec (m : streams) name sp : NoDup (keys m) -> tbl_small m ->
  submset (tbl_values (Stream.streams_meet_scope_start vagg m name sp)) (tbl_values m) /\
  NoDup (keys (Stream.streams_meet_scope_start vagg m name sp)) /\
  tbl_small (Stream.streams_meet_scope_start vagg m name sp).
Proof.
  intros N S. unfold Stream.streams_meet_scope_start. destruct (Stream.map_get vagg m name) as [ds|] eqn:G.
  - split; [|split; [apply keys_insert, N|]].
    + apply (insert_sub m name ds _ [] G). rewrite descs_values_app. cbn. rewrite !app_nil_r. apply submset_refl.
    + apply small_insert; [exact S|]. intros d Hd. apply in_app_or in Hd as [Hd|[<-|[]]]; [|apply stream_new_small].
      apply (S name ds d (map_get_in _ _ _ G) Hd).
  - split; [|split; [apply keys_insert, N|]].
    + destruct (map_insert_absent m name [Stream.descriptor_restricted vagg (Stream.stream_new vagg) sp] G) as [-> _].
      cbn. rewrite app_nil_r. apply submset_refl.
    + apply small_insert; [exact S|]. intros d [<-|[]]. apply stream_new_small.
Qed.

(* Streams::meet_scope_end *)
Lemma scope_end_spec (m m1 : streams) name s' pl :
  Stream.streams_meet_scope_end vagg va_pos m name = Stream.SOk (m1, s', pl) -> NoDup (keys m) -> tbl_small m ->
  submset (tbl_values m1) (tbl_values m) /\ NoDup (keys m1) /\ tbl_small m1.
Proof.
  unfold Stream.streams_meet_scope_end. intros H N S. destruct (Stream.map_get vagg m name) as [ds|] eqn:G; [|discriminate].
  destruct (rev ds) as [|last rest_rev] eqn:R; [discriminate|].
  destruct (Stream.stream_compactify vagg va_pos (d_stream last)) as [s2 pl2]. injection H as <- _ _.
  assert (ds = rev rest_rev ++ [last]) as Eds by (rewrite <- (rev_involutive ds), R; reflexivity).
  destruct (Stream.is_nil rest_rev).
  - destruct (map_remove_spec m name) as (V & K & I). split; [exact V|]. split; [apply K, N|].
    intros k ds0 d Hk Hd. apply (S k ds0 d (I _ _ Hk) Hd).
  - split; [|split; [apply keys_insert, N|]].
    + apply (insert_sub m name ds _ [] G). cbn [app]. rewrite Eds, descs_values_app. apply submset_app_l.
    + apply small_insert; [exact S|]. intros d Hd. apply (S name ds d (map_get_in _ _ _ G)). rewrite Eds. apply in_or_app. left. exact Hd.
Qed.

(* the recursive cursor moves no value *)
Lemma with_new_iter s (mx : Stream.matrix vagg) : Stream.m_cells mx = Stream.m_cells (Stream.s_new s) ->
  siter (Stream.with_new vagg s mx) = siter s.
Proof. intros E. unfold Stream.stream_iter, Stream.with_new, Stream.matrix_iter. cbn. rewrite E. reflexivity. Qed.

Lemma met_fold_start_spec rc s st rc' s' : Stream.met_fold_start vagg rc s = Stream.SOk (st, rc', s') ->
  siter s' = siter s /\ ssize s' = ssize s.
Proof.
  unfold Stream.met_fold_start. destruct (Stream.stream_get_cursor vagg s) as [c| |]; cbn [Stream.sbind]; try discriminate.
  destruct (Stream.should_continue vagg _); intros [= _ _ <-]; auto.
Qed.

Lemma remove_last_spec s s0 : Stream.remove_last_generation_if_empty vagg s = Stream.SOk s0 ->
  submset (siter s0) (siter s) /\ ssize s0 = ssize s.
Proof.
  unfold Stream.remove_last_generation_if_empty.
  destruct (Stream.new_last_generation_is_empty vagg (Stream.s_new s)) as [e| |]; cbn [Stream.sbind]; try discriminate.
  intros [= <-]. destruct e; [|split; [apply submset_refl|reflexivity]].
  unfold Stream.new_remove_last_generation. destruct (Stream.m_len (Stream.s_new s) =? 0).
  - destruct s; split; [apply submset_refl|reflexivity].
  - split; [|reflexivity]. unfold Stream.stream_iter, Stream.with_new. cbn [Stream.s_prev Stream.s_cur Stream.s_new].
    apply submset_app; [apply submset_refl|]. apply submset_app; [apply submset_refl|].
    unfold Stream.matrix_iter. cbn [Stream.m_cells]. rewrite <- !flat_map_concat_map. apply submset_flat_map_filter.
Qed.

Lemma met_iteration_end_spec rc s st rc' s' : Stream.met_iteration_end vagg rc s = Stream.SOk (st, rc', s') ->
  submset (siter s') (siter s) /\ ssize s' = ssize s.
Proof.
  unfold Stream.met_iteration_end. destruct (Stream.remove_last_generation_if_empty vagg s) as [s1| |] eqn:R; cbn [Stream.sbind]; try discriminate.
  destruct (Stream.stream_get_cursor vagg s1) as [c| |]; cbn [Stream.sbind]; try discriminate. intros [= _ _ <-].
  apply remove_last_spec in R as [V Z]. rewrite with_new_iter by reflexivity. split; [exact V|]. rewrite <- Z. reflexivity.
Qed.

Lemma small_of_sub s s' : stream_small s -> submset (siter s') (siter s) -> ssize s' = ssize s -> stream_small s'.
Proof. intros [L B] V Z. unfold stream_small. rewrite Z. split; [|exact B]. apply lenN_le_of_submset in V. lia. Qed.

(* ------------------------------------------------------------------------------------------ *)
(* 3. the invariant: primitive steps *)

Local Notation P := stream_pos_ok.
Definition res_trace (x : ctx) : list (state cid) := result_trace cid (x_handler x).

Definition vals_ok (tr : list (state cid)) (vals : list vagg) : Prop :=
  (forall v, In v vals -> gen_at tr (va_pos v)) /\ NoDup (map va_pos vals).
Definition tabs_ok (x : ctx) : Prop :=
  (forall t, NoDup (keys (table_of t x))) /\ (forall t, tbl_small (table_of t x)).

Lemma P_unfold x : P x <-> SignSpec.handler_ok (x_handler x) /\ vals_ok (res_trace x) (ctx_values x) /\ tabs_ok x.
Proof. unfold stream_pos_ok, vals_ok, tabs_ok, res_trace. tauto. Qed.

Lemma vals_ok_mono tr tr' vals : tr_mono tr tr' -> vals_ok tr vals -> vals_ok tr' vals.
Proof. intros M [A B]. split; [intros v Hv; apply M, A, Hv|exact B]. Qed.
Lemma vals_ok_sub tr vals vals' : submset vals' vals -> vals_ok tr vals -> vals_ok tr vals'.
Proof.
  intros S [A B]. split; [intros v Hv; apply A; eapply submset_in; eauto|].
  eapply submset_nodup; [apply submset_map, S|exact B].
Qed.
(* the value that carries the next trace position, then the push of its state *)
Lemma vals_ok_add tr vals v st : vals_ok tr vals -> va_pos v = len_N tr -> is_gen st = true -> vals_ok (tr ++ [st]) (v :: vals).
Proof.
  intros [A B] E G. split.
  - intros w [<-|Hw]; [rewrite E; apply gen_at_new, G|apply tr_mono_push, A, Hw].
  - cbn [map]. constructor; [|exact B]. intros Hin. apply in_map_iff in Hin as (w & Ew & Hw).
    apply A, gen_at_lt in Hw. lia.
Qed.

(* the invariant with one value waiting for the push of its state *)
Definition pend (x : ctx) : Prop :=
  SignSpec.handler_ok (x_handler x) /\
  (exists v rest, submset (ctx_values x) (v :: rest) /\ va_pos v = trace_pos_of x /\ vals_ok (res_trace x) rest) /\
  tabs_ok x.

Definition core2 (x : ctx) := (x_handler x, e_streams (x_ext x), e_stream_maps (x_ext x)).

Lemma core2_tables x y : core2 y = core2 x -> x_handler y = x_handler x /\ forall t, table_of t y = table_of t x.
Proof. unfold core2. intros [= A B C]. split; [exact A|]. intros []; unfold table_of; assumption. Qed.

Lemma P_frame x y : core2 y = core2 x -> P x -> P y.
Proof.
  intros E. apply core2_tables in E as [Eh Et]. rewrite !P_unfold. unfold tabs_ok, res_trace, ctx_values.
  rewrite Eh, !Et. intros (A & B & C & D). split; [exact A|]. split; [exact B|]. split; intros t; rewrite Et; auto.
Qed.
Lemma pend_frame x y : core2 y = core2 x -> pend x -> pend y.
Proof.
  intros E. apply core2_tables in E as [Eh Et]. unfold pend, tabs_ok, res_trace, ctx_values, trace_pos_of.
  rewrite Eh, !Et. intros (A & B & C & D). split; [exact A|]. split; [exact B|]. split; intros t; rewrite Et; auto.
Qed.

Ltac frame :=
  match goal with
  | H : stream_pos_ok ?x |- stream_pos_ok ?y => apply (P_frame x y); [reflexivity|exact H]
  | H : pend ?x |- pend ?y => apply (pend_frame x y); [reflexivity|exact H]
  end.

Lemma core2_record_cid x p c : core2 (record_cid x p c) = core2 x.
Proof. unfold record_cid. destruct (String.eqb p (current_peer x)); reflexivity. Qed.
Lemma core2_ctx_set_errors x e i t b : core2 (ctx_set_errors x e i t b) = core2 x.
Proof. unfold ctx_set_errors. repeat match goal with |- context [if ?c then _ else _] => destruct c end; reflexivity. Qed.
Lemma core2_set_scalar_value x n v y : set_scalar_value x n v = POk y -> core2 y = core2 x.
Proof. unfold set_scalar_value. destruct (Scalars.set_value _ _ _ _) as [[m ?]|]; [|discriminate]. intros [= <-]. reflexivity. Qed.
Lemma core2_set_canon_value x n c y : set_canon_value x n c = POk y -> core2 y = core2 x.
Proof. unfold set_canon_value. destruct (Scalars.set_value _ _ _ _) as [[m ?]|]; [|discriminate]. intros [= <-]. reflexivity. Qed.
Lemma core2_set_canon_map_value x n c y : set_canon_map_value x n c = POk y -> core2 y = core2 x.
Proof. unfold set_canon_map_value. destruct (Scalars.set_value _ _ _ _) as [[m ?]|]; [|discriminate]. intros [= <-]. reflexivity. Qed.

Lemma P_record_cid x p c : P x -> P (record_cid x p c).
Proof. apply P_frame, core2_record_cid. Qed.
Lemma pend_record_cid x p c : pend x -> pend (record_cid x p c).
Proof. apply pend_frame, core2_record_cid. Qed.

(* a handler step that keeps the inserters well-formed and loses no Ap / stream Call state *)
Lemma P_hstep x h' : P x -> (SignSpec.handler_ok (x_handler x) -> SignSpec.handler_ok h' /\ hmono (x_handler x) h') -> P (set_handler x h').
Proof.
  rewrite !P_unfold. intros (A & B & C) K. destruct (K A) as [K1 K2].
  split; [exact K1|]. split; [|exact C]. eapply vals_ok_mono; [exact K2|exact B].
Qed.
Lemma P_same x h' : P x -> result_trace cid h' = res_trace x -> h_pars cid h' = h_pars cid (x_handler x) ->
  h_folds cid h' = h_folds cid (x_handler x) -> P (set_handler x h').
Proof.
  intros H R Pp F. apply P_hstep; [exact H|]. intros K. split; [eapply SignProofs.handler_ok_same; eauto|apply hmono_same, R].
Qed.
Lemma P_push x h' st : P x -> result_trace cid h' = res_trace x ++ [st] -> h_pars cid h' = h_pars cid (x_handler x) ->
  h_folds cid h' = h_folds cid (x_handler x) -> P (set_handler x h').
Proof.
  intros H R Pp F. apply P_hstep; [exact H|]. intros K. split; [eapply SignProofs.handler_ok_push; eauto|eapply hmono_push, R].
Qed.
Lemma pend_push x h' st : pend x -> is_gen st = true -> result_trace cid h' = res_trace x ++ [st] ->
  h_pars cid h' = h_pars cid (x_handler x) -> h_folds cid h' = h_folds cid (x_handler x) -> P (set_handler x h').
Proof.
  intros (A & (v & rest & S & E & V) & C) G R Pp F. rewrite P_unfold.
  split; [eapply SignProofs.handler_ok_push; eauto|]. split; [|exact C].
  unfold res_trace. cbn [x_handler set_handler]. rewrite R. eapply vals_ok_sub; [exact S|]. apply vals_ok_add; auto.
Qed.

Lemma P_call_end x c : P x -> P (call_end x c).
Proof. intros H. unfold call_end. destruct (SignProofs.meet_call_end_spec (x_handler x) c) as (R & Pp & F). eapply P_push; eauto. Qed.
Lemma pend_call_end x c : pend x -> is_gen (SCall c) = true -> P (call_end x c).
Proof. intros H G. unfold call_end. destruct (SignProofs.meet_call_end_spec (x_handler x) c) as (R & Pp & F). eapply pend_push; eauto. Qed.

(* writing one table *)
Lemma handler_with_table t x m : x_handler (with_table t x m) = x_handler x.
Proof. destruct t; reflexivity. Qed.
Lemma table_with_table t t' x m : table_of t' (with_table t x m) =
  match t, t' with TStreams, TStreams | TMaps, TMaps => m | _, _ => table_of t' x end.
Proof. destruct t, t'; reflexivity. Qed.

Lemma tabs_with_table t x m : tabs_ok x -> NoDup (keys m) -> tbl_small m -> tabs_ok (with_table t x m).
Proof.
  intros [K S] Km Sm. split; intros t'; rewrite table_with_table; destruct t, t'; auto.
Qed.

Lemma P_with_table t x m : P x -> submset (tbl_values m) (tbl_values (table_of t x)) -> NoDup (keys m) -> tbl_small m ->
  P (with_table t x m).
Proof.
  rewrite !P_unfold. intros (A & B & C) V Km Sm. rewrite handler_with_table. split; [exact A|].
  split; [|apply tabs_with_table; assumption]. unfold res_trace. rewrite handler_with_table.
  eapply vals_ok_sub; [|exact B]. unfold ctx_values. rewrite !table_with_table. destruct t.
  - apply submset_app; [exact V|apply submset_refl].
  - apply submset_app; [apply submset_refl|exact V].
Qed.
Lemma pend_with_table t x m v : P x -> submset (tbl_values m) (v :: tbl_values (table_of t x)) -> va_pos v = trace_pos_of x ->
  NoDup (keys m) -> tbl_small m -> pend (with_table t x m).
Proof.
  rewrite P_unfold. intros (A & B & C) V E Km Sm. unfold pend. rewrite handler_with_table. split; [exact A|].
  split; [|apply tabs_with_table; assumption]. exists v, (ctx_values x). unfold res_trace, trace_pos_of. rewrite handler_with_table.
  split; [|split; [exact E|exact B]]. unfold ctx_values. rewrite !table_with_table. destruct t.
  - change (v :: ?a ++ ?b) with ((v :: a) ++ b). apply submset_app; [exact V|apply submset_refl].
  - eapply submset_trans; [apply submset_app; [apply submset_refl|exact V]|]. apply submset_perm. symmetry. apply Permutation_middle.
Qed.

Lemma tabs_of_P x : P x -> tabs_ok x.
Proof. rewrite P_unfold. tauto. Qed.

(* Streams::add_stream_value on the context: the value waits for its state *)
Lemma P_add_stream_value x name v g p x1 : P x -> add_stream_value x name v g p = POk x1 -> va_pos v = trace_pos_of x -> pend x1.
Proof.
  intros H. unfold add_stream_value. destruct (Stream.streams_add_stream_value vagg _ name v g p) as [m| |] eqn:A; try discriminate.
  intros [= <-] E. destruct (tabs_of_P _ H) as [K S].
  destruct (add_stream_value_spec _ _ _ _ _ _ A (K TStreams) (S TStreams)) as (V & Km & Sm).
  change (with_streams x m) with (with_table TStreams x m). apply (pend_with_table TStreams x m v); assumption.
Qed.

(* ------------------------------------------------------------------------------------------ *)
(* 4. the call instruction: where values enter a stream through a service result / the merged data *)

Lemma track_service_result_core2 x v t ah x1 sc : track_service_result x v t ah = (x1, sc) -> core2 x1 = core2 x.
Proof. unfold track_service_result. intros [= <- _]. reflexivity. Qed.

(* call_result_setter.rs populate_context_from_peer_service_result followed by the push of the Call state
   (prev_result_handler.rs update_state_with_service_result) *)
Lemma P_update_state_with_service_result x t ah out ans :
  P x -> xres_all P (update_state_with_service_result x t ah out ans).
Proof.
  intros H. unfold update_state_with_service_result.
  destruct (negb (sa_ret_code ans =? call_service_success)%Z).
  { destruct (track_service_result x _ t ah) as [x1 sc] eqn:E. apply track_service_result_core2 in E. cbn [xres_all].
    apply P_call_end, P_record_cid. eapply P_frame; eauto. }
  destruct (sa_parsed ans) as [result|].
  2:{ destruct (track_service_result x _ t ah) as [x1 sc] eqn:E. apply track_service_result_core2 in E. cbn [xres_all].
      apply P_call_end, P_record_cid. eapply P_frame; eauto. }
  unfold populate_from_service_result. destruct out as [sv|sv|].
  - destruct (track_service_result x result t ah) as [x1 sc] eqn:E. apply track_service_result_core2 in E.
    assert (P x1) as H1 by (eapply P_frame; eauto).
    destruct (set_scalar_value x1 _ _) as [x2| | |] eqn:E2; cbn [xres_all]; auto.
    apply core2_set_scalar_value in E2. apply P_call_end, P_record_cid. eapply P_frame; eauto.
  - destruct (track_service_result x result t ah) as [x1 sc] eqn:E. apply track_service_result_core2 in E.
    assert (P x1) as H1 by (eapply P_frame; eauto).
    assert (trace_pos_of x = trace_pos_of x1) as Ep.
    { apply core2_tables in E as [Eh _]. unfold trace_pos_of. rewrite Eh. reflexivity. }
    destruct (add_stream_value x1 _ _ _ _) as [x2| | |] eqn:E2; cbn [xres_all]; auto.
    apply (P_add_stream_value _ _ _ _ _ _ H1) in E2; [|exact Ep].
    apply pend_call_end; [apply pend_record_cid, E2|reflexivity].
  - cbn [xres_all]. apply P_call_end, H.
Qed.

Lemma P_populate_from_data x v ah t pos src out y : P x -> pos = trace_pos_of x ->
  populate_from_data x v ah t pos src out = POk y -> match v with VRStream _ _ => pend y | _ => P y end.
Proof.
  intros H E. unfold populate_from_data. destruct out as [sv|sv|], v as [c|c g|c]; try discriminate.
  - destruct (resolve_service_info x c) as [si| | |]; cbn [pbind]; try discriminate.
    destruct (verify_call _ _ _ _) as [u| | |]; cbn [pbind]; try discriminate.
    intros E3. apply core2_set_scalar_value in E3. eapply P_frame; eauto.
  - destruct (resolve_service_info x c) as [si| | |]; cbn [pbind]; try discriminate.
    destruct (verify_call _ _ _ _) as [u| | |]; cbn [pbind]; try discriminate.
    intros E3. apply (P_add_stream_value _ _ _ _ _ _ H E3). exact E.
  - intros [= <-]. exact H.
Qed.

Lemma P_handle_prev_state x met pos src t ah out r sd :
  P x -> pos = trace_pos_of x -> handle_prev_state x met pos src t ah out = (r, sd) -> xres_all P r.
Proof.
  intros H Ep. unfold handle_prev_state. destruct met as [s|v|fc].
  - destruct s as [p|p id].
    + destruct (String.eqb (tp_peer t) (current_peer x)); intros [= <- <-]; cbn [xres_all]; auto; frame.
    + destruct (String.eqb p (current_peer x)).
      * destruct (results_take (x_call_results x) id) as [[ans|] rest].
        -- destruct ah as [ah|]; intros [= <- <-]; cbn [xres_all]; auto.
           apply P_update_state_with_service_result. frame.
        -- intros [= <- <-]. cbn [xres_all]. frame.
      * destruct (String.eqb (tp_peer t) (current_peer x)); intros [= <- <-]; cbn [xres_all]; auto; frame.
  - destruct ah as [ah|]; [|intros [= <- <-]; cbn; auto].
    destruct (populate_from_data x v ah t pos src out) as [x1| | |] eqn:E; intros [= <- <-]; cbn [xres_all]; auto.
    apply (P_populate_from_data _ _ _ _ _ _ _ _ H Ep) in E. destruct v as [c|c g|c].
    + apply P_call_end, P_record_cid, E.
    + apply pend_call_end; [apply pend_record_cid, E|reflexivity].
    + apply P_call_end, E.
  - destruct (resolve_service_info x fc) as [si| | |]; try (intros [= <- <-]; cbn; auto; fail).
    destruct ah as [ah|]; [|intros [= <- <-]; cbn; auto].
    destruct (verify_call ah t _ _) as [u| | |]; try (intros [= <- <-]; cbn; auto; fail).
    destruct (si_value si); try (intros [= <- <-]; cbn; auto; fail).
    destruct (obj_get "ret_code" kvs) as [[]|]; try (intros [= <- <-]; cbn; auto; fail).
    destruct (obj_get "message" kvs) as [[]|]; try (intros [= <- <-]; cbn; auto; fail).
    destruct ((-2147483648 <=? z)%Z && (z <=? 2147483647)%Z); intros [= <- <-]; cbn [xres_all]; auto.
    apply P_call_end, P_record_cid. frame.
Qed.

(* the position handed out by the call merger is the next position of the result trace *)
Lemma prepare_call_result_pos r sch (k k' : keeper cid) met pos src :
  prepare_call_result cid r sch k = Ok (CallMet cid met pos src, k') -> pos = len_N (k_result cid k').
Proof.
  unfold prepare_call_result. destruct (prepare_positions_mapping cid sch k) as [k1| |] eqn:E; cbn [Handler.bind]; try discriminate.
  intros [= _ <- _ <-]. apply SignProofs.prepare_positions_mapping_result in E. rewrite E. reflexivity.
Qed.
Lemma try_merge_call_pos (k k' : keeper cid) met pos src :
  try_merge_next_state_as_call cid cid_eqb k = Ok (CallMet cid met pos src, k') -> pos = len_N (k_result cid k').
Proof.
  unfold try_merge_next_state_as_call. destruct (next_states cid k) as [[p c] k1].
  destruct p as [[]|], c as [[]|]; try discriminate; try apply prepare_call_result_pos.
  destruct (merge_call_results cid cid_eqb c0 c) as [ms| |]; cbn [Handler.bind]; try discriminate. apply prepare_call_result_pos.
Qed.
Lemma meet_call_start_pos (h h' : handler cid) met pos src :
  meet_call_start cid cid_eqb h = Ok (CallMet cid met pos src, h') -> pos = len_N (result_trace cid h').
Proof.
  unfold meet_call_start. destruct (try_merge_next_state_as_call cid cid_eqb (h_keeper cid h)) as [[r0 k']| |] eqn:E; cbn [Handler.bind]; try discriminate.
  intros [= -> <-]. apply try_merge_call_pos in E. exact E.
Qed.

Lemma P_meet_call_start x r h : P x -> meet_call_start cid cid_eqb (x_handler x) = Ok (r, h) -> P (set_handler x h).
Proof. intros H E. apply SignProofs.meet_call_start_spec in E as (R & Pp & F). apply P_same; assumption. Qed.

Lemma P_maybe_set_prev_state x sd : P x -> P (maybe_set_prev_state x sd).
Proof. destruct sd as [b [c|]]; cbn; auto. apply P_call_end. Qed.
Lemma P_remote x q s : P x -> P (call_end (make_incomplete (set_next_peers x q)) (RequestSentBy s)).
Proof. intros H. apply P_call_end. frame. Qed.

Lemma P_resolved_call_execute x t args out : P x -> xres_all P (resolved_call_execute x t args out).
Proof.
  intros H. unfold resolved_call_execute.
  destruct (collect_args x args) as [[av at_]|e| |]; cbn [xres_all]; auto.
  - unfold with_handler. destruct (meet_call_start cid cid_eqb (x_handler x)) as [[r h]| |] eqn:E; cbn [xres_all]; auto.
    pose proof (P_meet_call_start _ _ _ H E) as H0. cbn [fst snd].
    assert (forall x1 sd, P x1 ->
              xres_all P
                match sd with
                | SD false _ => XOk (maybe_set_prev_state x1 sd)
                | SD true _ =>
                    if negb (String.eqb (tp_peer t) (current_peer x1))
                    then XOk (call_end (make_incomplete (set_next_peers x1 (x_next_peers x1 ++ [tp_peer t]))) (RequestSentBy (SPeer (current_peer x1))))
                    else if 4294967295 <=? x_lcid x1 then XCrash "next_call_request_id: u32 overflow"
                    else XOk (call_end (make_incomplete (set_calls x1 (x_lcid x1 + 1) (x_call_results x1)
                                   (x_requests x1 ++ [(x_lcid x1 + 1, {| rq_service := tp_service t; rq_function := tp_function t; rq_args := av; rq_tetraplets := at_ |})])))
                                   (RequestSentBy (SPeerCall (current_peer (set_calls x1 (x_lcid x1 + 1) (x_call_results x1)
                                   (x_requests x1 ++ [(x_lcid x1 + 1, {| rq_service := tp_service t; rq_function := tp_function t; rq_args := av; rq_tetraplets := at_ |})]))) (x_lcid x1 + 1))))
                end) as K.
    { intros x1 [[] prev] H1; cbn [xres_all].
      - destruct (negb _); cbn [xres_all]; [apply P_remote; auto|].
        destruct (4294967295 <=? x_lcid x1); cbn [xres_all]; auto.
        apply P_call_end. frame.
      - apply P_maybe_set_prev_state; auto. }
    destruct r as [|met pos src].
    + apply (K _ (SD true None)); cbn; auto.
    + apply meet_call_start_pos in E.
      destruct (handle_prev_state (set_handler x h) met pos src t (Some (CArgs av)) out) as [r sd] eqn:Eh.
      pose proof (P_handle_prev_state _ _ _ _ _ _ _ _ _ H0 E Eh) as Hr.
      destruct r; cbn [xres_all] in *; auto.
  - destruct (is_joinable e); cbn [xres_all]; auto.
    unfold with_handler. destruct (meet_call_start cid cid_eqb (x_handler x)) as [[r h]| |] eqn:E; cbn [xres_all]; auto.
    pose proof (P_meet_call_start _ _ _ H E) as H0. cbn [fst snd].
    destruct r as [|met pos src].
    + destruct (negb _); cbn [xres_all]; auto. apply P_remote; auto.
    + apply meet_call_start_pos in E.
      destruct (handle_prev_state (set_handler x h) met pos src t None out) as [r sd] eqn:Eh.
      pose proof (P_handle_prev_state _ _ _ _ _ _ _ _ _ H0 E Eh) as Hr.
      destruct r as [x1| | | |]; cbn [xres_all] in *; auto.
      destruct sd as [should prev]. destruct (negb should); cbn [xres_all].
      * apply P_maybe_set_prev_state; auto.
      * destruct (negb _); cbn [xres_all]; [apply P_remote; auto|apply P_maybe_set_prev_state; auto].
Qed.

Lemma P_exec_call x text tr args out : P x -> xres_all P (exec_call x text tr args out).
Proof.
  intros H. unfold exec_call.
  assert (forall e x' t, P x' ->
            xres_all P match e with ECatch _ => XErr e (ctx_set_errors x' e text t true) | EUncatch _ => XErr e x' end) as S.
  { intros e x' t H'. destruct e; cbn [xres_all]; auto. eapply P_frame; [apply core2_ctx_set_errors|exact H']. }
  destruct (pbind (resolve_triplet x tr) _) as [t|e| |]; cbn [xres_all]; auto.
  - pose proof (P_resolved_call_execute x t args out H) as R.
    destruct (resolved_call_execute x t args out) as [y|e y| | |]; cbn [xres_all] in *; auto.
    destruct (is_joinable e); cbn [xres_all]; [frame|apply S; auto].
  - destruct (is_joinable e); cbn [xres_all]; [frame|apply S; auto].
Qed.

(* ------------------------------------------------------------------------------------------ *)
(* 5. the instructions of ExecStreams.v *)

Lemma va_new_pos j t pos p : va_pos (va_new j t pos p) = pos.
Proof. destruct p; reflexivity. Qed.
Lemma va_set_pos_pos v p : va_pos (va_set_pos v p) = p.
Proof. destruct v; reflexivity. Qed.

(* apply_to_arguments.rs with the trace position: every branch stamps trace_ctx.trace_pos() *)
Lemma apply_to_arg_pos x a v : apply_to_arg x a true = POk v -> va_pos v = trace_pos_of x.
Proof.
  unfold apply_to_arg.
  assert (forall r : pres resolved,
            (dop rr <- r; match snd (fst rr) with
                          | t :: _ => POk (va_new (fst (fst rr)) t (trace_pos_of x) (snd rr))
                          | [] => PCrash "tetraplets.remove(0) on an empty list"
                          end) = POk v -> va_pos v = trace_pos_of x) as FR.
  { intros [rr| | |]; cbn [pbind]; try discriminate. destruct (snd (fst rr)); [discriminate|]. intros [= <-]. apply va_new_pos. }
  destruct a; cbv zeta; try (intros [= <-]; reflexivity); try apply FR.
  - destruct (scalars_get_value x (v_name v0)) as [r| | |]; cbn [pbind]; try discriminate.
    destruct r as [a|f]; cbn [pbind]; [intros [= <-]; apply va_set_pos_pos|].
    destruct (it_peek (fs_iterable f)); cbn [pbind]; try discriminate. intros [= <-]. apply va_set_pos_pos.
  - destruct (get_canon_stream x (v_name v0)) as [c| | |]; cbn [pbind]; try discriminate. intros [= <-]. reflexivity.
  - destruct (get_canon_map x (v_name v0)) as [c| | |]; cbn [pbind]; try discriminate. intros [= <-]. reflexivity.
Qed.

Lemma P_meet_ap_start x r h : P x -> meet_ap_start cid (x_handler x) = Ok (r, h) ->
  P (set_handler x h) /\ trace_pos_of (set_handler x h) = trace_pos_of x.
Proof.
  intros H E. apply SignProofs.meet_ap_start_spec in E as (R & Pp & F). split; [apply P_same; assumption|].
  unfold trace_pos_of. cbn [x_handler set_handler]. rewrite R. reflexivity.
Qed.

Lemma pend_ap_end x : pend x -> P (set_handler x (meet_ap_end cid (x_handler x) [generation_stub])).
Proof. intros H. apply (pend_push x _ (SAp [generation_stub])); auto. Qed.

(* ap.rs: ap into a stream *)
Lemma P_exec_ap_stream x a sv : P x -> xres_all P (exec_ap_stream x a sv).
Proof.
  intros H. unfold exec_ap_stream. destruct (apply_to_arg x a true) as [v|e| |] eqn:A; cbn [xres_all]; auto.
  - apply apply_to_arg_pos in A.
    unfold with_handler. destruct (meet_ap_start cid (x_handler x)) as [[r h]| |] eqn:E; cbn [xres_all]; auto.
    destruct (P_meet_ap_start _ _ _ H E) as [H0 Ep]. cbn [fst snd].
    destruct (add_stream_value (set_handler x h) _ _ _ _) as [x1| | |] eqn:E1; cbn [xres_all]; auto.
    apply pend_ap_end. apply (P_add_stream_value _ _ _ _ _ _ H0 E1). congruence.
  - destruct (is_joinable e); cbn [xres_all]; auto; try frame.
Qed.

(* ap_map.rs: ap into a stream map *)
Lemma P_exec_ap_map x k a m : P x -> xres_all P (exec_ap_map x k a m).
Proof.
  intros H. unfold exec_ap_map. destruct (apply_to_arg x a true) as [v|e| |] eqn:A; cbn [xres_all]; auto.
  - apply apply_to_arg_pos in A.
    unfold with_handler. destruct (meet_ap_start cid (x_handler x)) as [[r h]| |] eqn:E; cbn [xres_all]; auto.
    destruct (P_meet_ap_start _ _ _ H E) as [H0 Ep]. cbn [fst snd].
    destruct (resolve_map_key (set_handler x h) k) as [key|e| |]; cbn [xres_all]; auto.
    + destruct (Stream.streams_add_stream_value _ _ _ _ _ _) as [tbl| |] eqn:E1; cbn [xres_all]; auto.
      apply pend_ap_end. destruct (tabs_of_P _ H0) as [K S].
      destruct (add_stream_value_spec _ _ _ _ _ _ E1 (K TMaps) (S TMaps)) as (V & Km & Sm).
      eapply pend_with_table; eauto. unfold va_with_result. rewrite va_new_pos. congruence.
    + destruct (is_joinable e); cbn [xres_all]; auto; try frame.
  - destruct (is_joinable e); cbn [xres_all]; auto; try frame.
Qed.

(* canon.rs and its two variants: the tables are read only; one Canon state is pushed *)
Lemma P_canon_end x c : P x -> P (set_handler x (meet_canon_end cid (x_handler x) c)).
Proof. intros H. apply (P_push x _ (SCanon c)); auto. Qed.

Lemma P_canon_epilog k x values t c : P x -> xres_all P (canon_epilog k x values t c).
Proof.
  intros H. unfold canon_epilog. destruct k as [name|name|name].
  - destruct (set_canon_value _ _ _) as [y|e| |] eqn:S; cbn [lift xres_all]; auto.
    apply core2_set_canon_value in S. apply P_canon_end. eapply P_frame; eauto.
  - destruct (negb (kv_pairs_valid values)); cbn [xres_all]; auto.
    destruct (set_canon_map_value _ _ _) as [y|e| |] eqn:S; cbn [lift xres_all]; auto.
    apply core2_set_canon_map_value in S. apply P_canon_end. eapply P_frame; eauto.
  - destruct values as [|v vs]; cbn [xres_all]; auto.
    destruct (set_scalar_value _ _ _) as [y|e| |] eqn:S; cbn [lift xres_all]; auto.
    apply core2_set_scalar_value in S. apply P_canon_end. eapply P_frame; eauto.
Qed.

Lemma P_handle_canon_executed k x p c : P x -> xres_all P (handle_canon_executed k x p c).
Proof.
  intros H. unfold handle_canon_executed. destruct (resolve_peer_id_to_string x p) as [peer|e| |]; cbn [lift xres_all]; auto.
  destruct (cid_mem c (cs_canon_results (x_cids x))); cbn [negb xres_all]; auto.
  destruct c as [| | | | |tc vcs|]; cbn [xres_all]; auto.
  destruct (negb (cid_mem tc _)); cbn [xres_all]; auto. destruct tc as [|t| | | | |]; cbn [xres_all]; auto.
  destruct (verify_canon (canon_tetraplet peer) t) as [u|e| |]; cbn [lift xres_all]; auto.
  destruct (canon_values_by_cids (x_cids x) vcs) as [values|e| |]; cbn [lift xres_all]; auto.
  apply P_canon_epilog, P_record_cid, H.
Qed.

Lemma P_create_canon_first_time k tb x stream peer : P x -> xres_all P (create_canon_first_time k tb x stream peer).
Proof. intros H. unfold create_canon_first_time. apply P_canon_epilog, P_record_cid. frame. Qed.

Lemma P_exec_canon_generic k tb x p s : P x -> xres_all P (exec_canon_generic k tb x p s).
Proof.
  intros H. unfold exec_canon_generic, with_handler.
  destruct (meet_canon_start cid cid_eqb (x_handler x)) as [[r h]| |] eqn:E; cbn [xres_all]; auto.
  assert (P (set_handler x h)) as H0.
  { apply SignProofs.meet_canon_start_spec in E as (R & Pp & F). apply P_same; assumption. }
  cbn [fst snd]. destruct r as [|[sender|c0]].
  - destruct (resolve_peer_id_to_string (set_handler x h) p) as [peer|e| |]; cbn [xres_all]; auto.
    + destruct (negb _); [|apply P_create_canon_first_time, H0]. cbn [xres_all]. apply P_canon_end. frame.
    + destruct (is_joinable e); cbn [xres_all]; auto; try frame.
  - destruct (resolve_peer_id_to_string (set_handler x h) p) as [peer|e| |]; cbn [lift xres_all]; auto.
    destruct (negb _); [|apply P_create_canon_first_time, H0]. cbn [xres_all]. apply P_canon_end. frame.
  - apply P_handle_canon_executed, H0.
Qed.

(* compactification of one stream (new.rs epilog) or of a table (farewell): update_generation only *)
Lemma apply_updates_mono ups : forall (h h' : handler cid),
  Stream.apply_updates (update_generation cid) h ups = inl h' -> hmono h h'.
Proof.
  induction ups as [|[p g] ups IH]; intros h h'; cbn [Stream.apply_updates].
  - intros [= <-]. apply tr_mono_refl.
  - destruct (update_generation cid h p g) as [h1|e] eqn:E; [|discriminate]. intros E2.
    eapply tr_mono_trans; [apply (update_generation_mono _ _ _ _ E)|apply (IH _ _ E2)].
Qed.

Lemma P_run_compact_plan x pl : P x -> xres_all P (run_compact_plan x pl).
Proof.
  intros H. unfold run_compact_plan, Stream.run_plan.
  destruct (Stream.apply_updates (update_generation cid) (x_handler x) (Stream.cp_updates pl)) as [h|e] eqn:E; cbn [xres_all]; auto.
  destruct (Stream.cp_crash pl); cbn [xres_all]; auto.
  apply P_hstep; [exact H|]. intros K. split; [apply (SignProofs.apply_updates_ok _ _ _ E K)|apply (apply_updates_mono _ _ _ E)].
Qed.

Lemma P_new_stream_epilog t x name : P x -> xres_all P (new_stream_epilog t x name).
Proof.
  intros H. unfold new_stream_epilog.
  destruct (Stream.streams_meet_scope_end _ _ _ _) as [[[m s] pl]| |] eqn:E; cbn [xres_all]; auto.
  destruct (tabs_of_P _ H) as [K S]. destruct (scope_end_spec _ _ _ _ _ E (K t) (S t)) as (V & Km & Sm).
  apply P_run_compact_plan, P_with_table; assumption.
Qed.

Lemma P_put_in t x n p s s' : P x -> get_in t x n p = Some s -> submset (siter s') (siter s) -> ssize s' = ssize s ->
  P (put_in t x n p s').
Proof.
  intros H G V Z. unfold put_in, get_in in *. destruct (tabs_of_P _ H) as [K S].
  destruct (streams_set_spec _ _ _ _ s' [] G V) as (V' & K' & S' & Ss).
  apply P_with_table; [exact H|exact V'|apply K', K|]. apply S'; [apply S|]. eapply small_of_sub; eauto.
Qed.

Section WithRun.
  Variable run : instr -> ctx -> xres.
  Hypothesis Hrun : forall i x, P x -> xres_all P (run i x).

  Lemma P_with_trace x (r : res (handler cid)) k :
    P x ->
    (forall h, r = Ok h -> SignSpec.handler_ok (x_handler x) -> SignSpec.handler_ok h /\ hmono (x_handler x) h) ->
    (forall h, P (set_handler x h) -> xres_all P (k (set_handler x h))) ->
    xres_all P (with_trace x r k).
  Proof.
    intros H K Hk. unfold with_trace, with_handler. destruct r as [h|e|s]; cbn [xres_all]; auto.
    apply Hk, P_hstep; auto.
  Qed.

  (* new.rs on a stream / a stream map *)
  Lemma P_exec_new_stream t x sv body sp : P x -> xres_all P (exec_new_stream t run x sv body sp).
  Proof.
    intros H. unfold exec_new_stream. destruct (tabs_of_P _ H) as [K S].
    destruct (scope_start_spec (table_of t x) (v_name sv) (air_span_to_stream sp) (K t) (S t)) as (V & Km & Sm).
    match goal with |- xres_all P (match run body ?x1 with _ => _ end) =>
      assert (P x1) as H1 by (apply P_with_table; assumption); pose proof (Hrun body _ H1) as R;
      destruct (run body x1) as [y|e y| | |] end; cbn [xres_all] in *; auto.
    - apply P_new_stream_epilog, R.
    - pose proof (P_new_stream_epilog t y (v_name sv) R) as E.
      destruct (new_stream_epilog t y (v_name sv)) as [y'|e' y'| | |]; cbn [xres_all] in *; auto.
  Qed.

  Lemma P_exec_new_canon_map x v body : P x -> xres_all P (exec_new_canon_map run x v body).
  Proof.
    intros H. unfold exec_new_canon_map.
    match goal with |- xres_all P (match run body ?x1 with _ => _ end) =>
      assert (P x1) as H1 by frame; pose proof (Hrun body _ H1) as R;
      destruct (run body x1) as [y|e y| | |] end; cbn [xres_all] in *; auto.
    - destruct (Scalars.meet_new_end _ _ _); cbn [lift xres_all]; auto; frame.
    - destruct (Scalars.meet_new_end _ _ _); cbn [xres_all]; auto; frame.
  Qed.

  (* fold over a stream / a stream map *)
  Lemma P_fold_batch x batch fold_id iter body last : P x -> xres_all P (fold_batch run x batch fold_id iter body last).
  Proof.
    intros H. unfold fold_batch. destruct (iter_get _ _); cbn [xres_all]; [frame|].
    match goal with |- xres_all P (match run body ?x2 with _ => _ end) =>
      assert (P x2) as H2 by frame; pose proof (Hrun body _ H2) as R;
      destruct (run body x2) as [y|e y| | |] end; cbn [xres_all] in *; auto; frame.
  Qed.

  Lemma P_execute_iterations batches : forall x fold_id iter body last observed,
    P x -> xres_all P (fst (execute_iterations run x batches fold_id iter body last observed)).
  Proof.
    induction batches as [|b rest IH]; intros x fold_id iter body last observed H; cbn [execute_iterations fst xres_all]; auto.
    destruct b as [|v b']; [apply IH, H|].
    destruct (meet_iteration_start cid (x_handler x) fold_id (va_pos v)) as [h| |] eqn:E; cbn [fst xres_all]; auto.
    assert (P (set_handler x h)) as H0.
    { apply P_hstep; [exact H|]. intros K. split; [apply (SignProofs.meet_iteration_start_ok _ _ _ _ E K)|].
      apply hmono_same, (meet_iteration_start_trace _ _ _ _ E). }
    assert (forall y, P y ->
              xres_all P (fst match meet_generation_end cid (x_handler y) fold_id with
                              | Err e => (XErr (trace_err e) y, observed)
                              | Crash _ => (XCrash "trace handler panic", observed)
                              | Ok h' => execute_iterations run (set_handler y h') rest fold_id iter body last
                                           (observed || x_complete (set_handler y h'))
                              end)) as After.
    { intros y Hy. destruct (meet_generation_end cid (x_handler y) fold_id) as [h'| |] eqn:E2; cbn [fst xres_all]; auto.
      apply IH. apply P_hstep; [exact Hy|]. intros K. split; [apply (SignProofs.meet_generation_end_ok _ _ _ E2 K)|].
      apply hmono_same, (meet_generation_end_trace _ _ _ E2). }
    pose proof (P_fold_batch (set_handler x h) (v :: b') fold_id iter body last H0) as R.
    destruct (fold_batch run (set_handler x h) (v :: b') fold_id iter body last) as [y|e y| | |]; cbn [fst xres_all] in *; auto.
    destruct (is_catchable e); [apply After, R|exact R].
  Qed.

  Lemma P_fold_stream_loop t n : forall x st rc sv iter body last fold_id observed,
    P x -> xres_all P (fst (fold_stream_loop t n run x st rc sv iter body last fold_id observed)).
  Proof.
    induction n as [|n IH]; intros x st rc sv iter body last fold_id observed H; destruct st as [batches|]; cbn [fold_stream_loop fst xres_all]; auto.
    pose proof (P_execute_iterations batches x fold_id iter body last observed H) as R.
    destruct (execute_iterations run x batches fold_id iter body last observed) as [[y|e y| | |] obs]; cbn [fst xres_all] in *; auto.
    destruct (get_in t y (v_name sv) (v_pos sv)) as [s|] eqn:G; cbn [fst xres_all]; auto.
    destruct (Stream.met_iteration_end vagg rc s) as [[[st' rc'] s']| |] eqn:M; cbn [fst xres_all]; auto.
    apply met_iteration_end_spec in M as [V Z]. apply IH. eapply P_put_in; eauto.
  Qed.

  Lemma P_exec_fold_stream t x sv iter body last : P x -> xres_all P (exec_fold_stream t run x sv iter body last).
  Proof.
    intros H. unfold exec_fold_stream. destruct (get_in t x (v_name sv) (v_pos sv)) as [s|] eqn:G; cbn [xres_all]; [|frame].
    apply P_with_trace; [frame| |].
    { intros h E K. split; [apply (SignProofs.meet_fold_start_ok _ _ _ E K)|]. eapply hmono_push, (meet_fold_start_trace _ _ _ E). }
    intros h H2.
    destruct (Stream.met_fold_start vagg Stream.rcursor_new s) as [[[st rc] s']| |] eqn:M; cbn [xres_all]; auto.
    apply met_fold_start_spec in M as [V Z].
    match goal with |- xres_all P (let (_, _) := fold_stream_loop ?t0 ?n run ?x3 ?a ?b ?c ?d ?e ?f ?g ?o in _) =>
      assert (P x3) as H3; [|pose proof (P_fold_stream_loop t0 n x3 a b c d e f g o H3) as R;
      destruct (fold_stream_loop t0 n run x3 a b c d e f g o) as [[y|e0 y| | |] obs]] end; cbn [fst xres_all] in *; auto.
    - apply (P_put_in t _ _ _ s s' H2); [exact G|rewrite V; apply submset_refl|exact Z].
    - apply P_with_trace; [frame| |auto].
      intros h' E K. split; [apply (SignProofs.meet_fold_end_ok _ _ _ E K)|apply (meet_fold_end_mono _ _ _ E K)].
  Qed.

  (* next.rs inside a fold over a stream *)
  Lemma P_exec_next_stream x iter fs fold_id : P x -> xres_all P (exec_next_stream run x iter fs fold_id).
  Proof.
    intros H. unfold exec_next_stream.
    apply P_with_trace; [exact H| |].
    { intros h E K. split; [apply (SignProofs.meet_iteration_end_ok _ _ _ E K)|apply hmono_same, (meet_iteration_end_trace _ _ _ E)]. }
    intros h0 H0.
    destruct (it_next (fs_iterable fs)) as [moved it']. destruct (negb moved).
    - apply P_with_trace; [exact H0| |].
      { intros h E K. split; [apply (SignProofs.meet_back_iterator_ok _ _ _ E K)|apply hmono_same, (meet_back_iterator_trace _ _ _ E)]. }
      intros h1 H1.
      destruct (fs_last fs); [apply Hrun; frame|]. destruct (negb (fs_back_started fs)); cbn [xres_all]; [frame|exact H1].
    - destruct (it_peek it') as [item|]; cbn [xres_all]; auto.
      apply P_with_trace; [frame| |].
      { intros h E K. split; [apply (SignProofs.meet_iteration_start_ok _ _ _ _ E K)|apply hmono_same, (meet_iteration_start_trace _ _ _ _ E)]. }
      intros h2 H2.
      match goal with |- xres_all P (match run ?b ?x3 with _ => _ end) =>
        assert (P x3) as H3 by frame; pose proof (Hrun b _ H3) as R;
        destruct (run b x3) as [y|e y| | |] end; cbn [xres_all] in *; auto; try frame.
      destruct (iter_get _ _); cbn [xres_all]; [|frame].
      apply P_with_trace; [frame| |auto].
      intros h E K. split; [apply (SignProofs.meet_back_iterator_ok _ _ _ E K)|apply hmono_same, (meet_back_iterator_trace _ _ _ E)].
  Qed.
End WithRun.

Theorem stream_instr_all run : (forall i x, P x -> xres_all P (run i x)) ->
  forall i x r, P x -> stream_instr run i x = Some r -> xres_all P r.
Proof.
  intros Hrun i x r H E.
  destruct i as [text t args out|text a dst|text k a m|text p s c|text p m c|text p m s|i1 i2|i1 i2|i1 i2
                 |text lhs rhs body|text lhs rhs body|text f|text iterable iter body last sp|text s iter body last sp
                 |text m iter body last sp| |text arg body sp|text iter| |]; cbn [stream_instr] in E; try discriminate.
  - destruct dst; [discriminate|]. injection E as <-. apply P_exec_ap_stream, H.
  - injection E as <-. apply P_exec_ap_map, H.
  - injection E as <-. apply P_exec_canon_generic, H.
  - injection E as <-. apply P_exec_canon_generic, H.
  - injection E as <-. apply P_exec_canon_generic, H.
  - injection E as <-. apply P_exec_fold_stream; assumption.
  - injection E as <-. apply P_exec_fold_stream; assumption.
  - destruct arg; try discriminate; injection E as <-;
      first [apply P_exec_new_stream; assumption|apply P_exec_new_canon_map; assumption].
  - destruct (iter_get _ _) as [fs|]; [|discriminate]. destruct (fs_type fs); [discriminate|].
    injection E as <-. apply P_exec_next_stream; assumption.
Qed.

(* ------------------------------------------------------------------------------------------ *)
(* 6. the executor: induction on the fuel over all instructions *)

Lemma P_wrap_errors r text b : xres_all P r -> xres_all P (wrap_errors r text b).
Proof. destruct r; cbn [wrap_errors xres_all]; auto. intros H. eapply P_frame; [apply core2_ctx_set_errors|exact H]. Qed.

Lemma P_exec_ap x a r : P x -> xres_all P (exec_ap x a r).
Proof.
  intros H. unfold exec_ap. destruct r as [v|v]; [|exact I].
  destruct (apply_to_arg x a false) as [val|e| |]; cbn [xres_all]; auto.
  - destruct (set_scalar_value x (v_name v) val) as [y| | |] eqn:E; cbn [lift xres_all]; auto.
    apply core2_set_scalar_value in E. eapply P_frame; eauto.
  - destruct (is_joinable e); cbn [xres_all]; auto; try frame.
Qed.

Lemma P_exec_fail x text f : P x -> xres_all P (exec_fail x text f).
Proof.
  intros H. unfold exec_fail.
  assert (forall e t p, xres_all P (fail_with_error_object x e t p)) as F by (intros; cbn; frame).
  assert (forall r : pres resolved,
            xres_all P (lift x r (fun rr => match snd (fst rr) with
                                           | t :: _ => if check_error_object (fst (fst rr))
                                                       then fail_with_error_object x (fst (fst rr)) (Some t) (snd rr)
                                                       else XErr (ECatch CInvalidErrorObjectError) x
                                           | [] => XCrash "tetraplet.remove(0) on an empty list" end))) as K.
  { intros [rr|e|s|w]; cbn [lift xres_all]; auto. destruct (snd (fst rr)); cbn [xres_all]; auto.
    destruct (check_error_object _); [apply F|exact H]. }
  destruct f; try apply K; try apply F.
  - destruct (check_error_object _); [apply F|exact H].
  - destruct (negb (check_error_object _)); [exact H|]. cbn [fail_with_error_object]. destruct (ie_orig _); cbn [xres_all]; frame.
Qed.

Theorem exec_stream_pos : forall fuel i x, P x -> xres_all P (exec stream_instr fuel i x).
Proof.
  induction fuel as [|fuel IH]; intros i x H; [exact I|].
  assert (forall j y, P y -> xres_all P (exec stream_instr fuel j y)) as Run by (intros; apply IH; assumption).
  assert (forall j y, P y ->
            xres_all P (match stream_instr (exec stream_instr fuel) j y with Some r' => r' | None => XUnsupported "stream" end)) as Hook.
  { intros j y Hy. destruct (stream_instr (exec stream_instr fuel) j y) as [r|] eqn:E; [|exact I].
    eapply stream_instr_all; eauto. }
  destruct i as [text t args out|text a dst|text k a m|text p s c|text p m c|text p m s|i1 i2|i1 i2|i1 i2
                 |text lhs rhs body|text lhs rhs body|text f|text iterable iter body last sp|text s iter body last sp
                 |text m iter body last sp| |text arg body sp|text iter| |]; cbn [exec]; try apply P_wrap_errors.
  - (* call *) apply P_exec_call, H.
  - (* ap *) destruct dst; [apply P_exec_ap, H|apply Hook, H].
  - (* ap map *) apply Hook, H.
  - (* canon *) apply Hook, H.
  - (* canon map *) apply Hook, H.
  - (* canon stream map scalar *) apply Hook, H.
  - (* seq *)
    assert (P (flush_complete x)) as H1 by frame.
    pose proof (Run i1 _ H1) as R1. destruct (exec stream_instr fuel i1 (flush_complete x)) as [x1| | | |]; cbn [xres_all] in *; auto.
    destruct (x_complete x1); cbn [xres_all]; auto.
  - (* par *)
    unfold with_handler. destruct (meet_par_start cid (x_handler x)) as [h1| |] eqn:E; cbn [xres_all]; auto.
    assert (P (set_handler x h1)) as H1.
    { apply P_hstep; [exact H|]. intros K. split; [apply (SignProofs.meet_par_start_ok _ _ E K)|].
      destruct (SignProofs.meet_par_start_spec _ _ E) as (f & R & _). eapply hmono_push, R. }
    assert (forall y sg h, P y -> meet_par_subgraph_end cid (x_handler y) sg = Ok h -> P (set_handler y h)) as End.
    { intros y sg h Hy E2. apply P_hstep; [exact Hy|]. intros K.
      split; [apply (SignProofs.meet_par_subgraph_end_ok _ _ _ E2 K)|apply (meet_par_subgraph_end_mono _ _ _ E2 K)]. }
    assert (forall s sg y, P y ->
              xres_all P (fst
                (let y0 := set_complete y (match s with INext _ _ => false | _ => true end) in
                 match exec stream_instr fuel s y0 with
                 | XOk y1 =>
                     match meet_par_subgraph_end cid (x_handler y1) sg with
                     | Ok h => (XOk (set_handler y1 h), Some None)
                     | Err e => (XErr (trace_err e) y1, None)
                     | Crash _ => (XCrash "trace handler panic", None)
                     end
                 | XErr e y1 =>
                     if is_catchable e then
                       let y2 := make_incomplete y1 in
                       match meet_par_subgraph_end cid (x_handler y2) sg with
                       | Ok h => (XOk (set_handler y2 h), Some (Some e))
                       | Err e' => (XErr (trace_err e') y2, None)
                       | Crash _ => (XCrash "trace handler panic", None)
                       end
                     else (XErr e (make_incomplete y1), None)
                 | r => (r, @None (option exec_err))
                 end))) as Sub.
    { intros s0 sg y Hy. cbn zeta.
      assert (P (set_complete y (match s0 with INext _ _ => false | _ => true end))) as Hy0 by frame.
      pose proof (Run s0 _ Hy0) as R. destruct (exec stream_instr fuel s0 _) as [y1|e y1| | |]; cbn [xres_all fst] in *; auto.
      - destruct (meet_par_subgraph_end cid (x_handler y1) sg) eqn:E2; cbn [xres_all fst]; auto. eapply End; eauto.
      - assert (P (make_incomplete y1)) as Hy2 by frame.
        destruct (is_catchable e); cbn [xres_all fst]; auto.
        destruct (meet_par_subgraph_end cid (x_handler (make_incomplete y1)) sg) eqn:E2; cbn [xres_all fst]; auto. eapply End; eauto. }
    pose proof (Sub i1 SLeft _ H1) as S1. cbn zeta in S1.
    match goal with |- xres_all P (let (_, _) := ?e in _) => destruct e as [r1 o1] end. cbn [fst] in S1.
    destruct r1 as [y1| | | |]; cbn [xres_all] in *; auto; destruct o1 as [lres|]; cbn [xres_all]; auto.
    pose proof (Sub i2 SRight _ S1) as S2. cbn zeta in S2.
    match goal with |- xres_all P (let (_, _) := ?e in _) => destruct e as [r2 o2] end. cbn [fst] in S2.
    destruct r2 as [y2| | | |]; cbn [xres_all] in *; auto; destruct o2 as [rres|]; cbn [xres_all]; auto.
    destruct lres, rres; cbn [xres_all]; frame.
  - (* xor *)
    assert (P (flush_complete x)) as H1 by frame.
    pose proof (Run i1 _ H1) as R1. destruct (exec stream_instr fuel i1 (flush_complete x)) as [x1|e x1| | |]; cbn [xres_all] in *; auto.
    destruct (is_catchable e); cbn [xres_all]; auto.
    match goal with |- xres_all P (match exec stream_instr fuel i2 ?x4 with _ => _ end) => assert (P x4) as H4 by frame; pose proof (Run i2 _ H4) as R2;
      destruct (exec stream_instr fuel i2 x4) as [y|e' y| | |] end; cbn [xres_all] in *; auto.
    + destruct (x_error_can_set y); frame.
    + destruct (x_error_can_set y); auto; frame.
  - (* match *)
    destruct (pbind (resolve_value x lhs) _) as [eq|e| |]; cbn [xres_all]; auto.
    + destruct (Bool.eqb eq true); cbn [xres_all]; auto.
    + destruct (is_joinable e); cbn [xres_all]; auto; try frame.
  - (* mismatch *)
    destruct (pbind (resolve_value x lhs) _) as [eq|e| |]; cbn [xres_all]; auto.
    + destruct (Bool.eqb eq false); cbn [xres_all]; auto.
    + destruct (is_joinable e); cbn [xres_all]; auto; try frame.
  - (* fail *) apply P_exec_fail, H.
  - (* fold scalar *)
    destruct (create_fold_iterable x iterable) as [[|itb]|e| |]; cbn [xres_all]; auto.
    + destruct (iter_get _ _); cbn [xres_all]; [frame|].
      match goal with |- xres_all P (match exec stream_instr fuel body ?x2 with _ => _ end) => assert (P x2) as H2 by frame; pose proof (Run body _ H2) as R2;
        destruct (exec stream_instr fuel body x2) end; cbn [xres_all] in *; auto; try frame.
    + destruct (is_joinable e); cbn [xres_all]; auto; try frame.
  - (* fold stream *) apply Hook, H.
  - (* fold stream map *) apply Hook, H.
  - (* never *) cbn [xres_all]. frame.
  - (* new *)
    destruct arg.
    + match goal with |- xres_all P (match exec stream_instr fuel body ?x1 with _ => _ end) => assert (P x1) as H1 by frame; pose proof (Run body _ H1) as R1;
        destruct (exec stream_instr fuel body x1) as [y|e y| | |] end; cbn [xres_all] in *; auto.
      * destruct (Scalars.meet_new_end vagg (x_scalars y) (v_name v)); cbn [lift xres_all]; auto; try frame.
      * destruct (Scalars.meet_new_end vagg (x_scalars y) (v_name v)); cbn [xres_all]; auto; try frame.
    + apply Hook, H.
    + apply Hook, H.
    + match goal with |- xres_all P (match exec stream_instr fuel body ?x1 with _ => _ end) => assert (P x1) as H1 by frame; pose proof (Run body _ H1) as R1;
        destruct (exec stream_instr fuel body x1) as [y|e y| | |] end; cbn [xres_all] in *; auto.
      * destruct (Scalars.meet_new_end canon_wp (x_canons y) (v_name v)); cbn [lift xres_all]; auto; try frame.
      * destruct (Scalars.meet_new_end canon_wp (x_canons y) (v_name v)); cbn [xres_all]; auto; try frame.
    + apply Hook, H.
  - (* next *)
    destruct (iter_get (x_iterables x) (v_name iter)) as [fs|]; cbn [xres_all]; [|auto].
    destruct (fs_type fs); [|apply Hook, H].
    destruct (it_next (fs_iterable fs)) as [moved it']. destruct (negb moved).
    + destruct (fs_last fs); [apply Run; frame|exact H].
    + match goal with |- xres_all P (match exec stream_instr fuel ?b ?x2 with _ => _ end) => assert (P x2) as H2 by frame; pose proof (Run b _ H2) as R2;
        destruct (exec stream_instr fuel b x2) as [y|e y| | |] end; cbn [xres_all] in *; auto; try frame.
      destruct (iter_get _ _); cbn [xres_all]; auto; frame.
  - (* null *) exact H.
  - (* error *) exact I.
Qed.

Lemma initial_stream_pos i : P (initial_ctx i).
Proof.
  rewrite P_unfold. split; [split; constructor|]. split; [split; [intros v []|constructor]|].
  split; intros []; cbn; [constructor|constructor|intros k ds d []|intros k ds d []].
Qed.

Theorem stream_pos_inv : stream_pos_inv_stmt.
Proof. split; [exact initial_stream_pos|exact exec_stream_pos]. Qed.

Theorem stream_pos_run : stream_pos_run_stmt.
Proof. intros fuel i. apply exec_stream_pos, initial_stream_pos. Qed.

(* ------------------------------------------------------------------------------------------ *)
(* 7. the compactification plan of a table whose streams are small: no generation overflow, and the
      updated positions are exactly the positions of the values *)

Local Notation ugen := (Stream.update_generations vagg va_pos).
Local Notation scompact := (Stream.stream_compactify vagg va_pos).
Local Notation dcompact := (Stream.descriptors_compactify vagg va_pos).

Lemma update_generations_ok rows : forall start position,
  start + position + Stream.lenN rows <= Stream.gen_u32_max ->
  Stream.cp_crash (ugen rows start position) = None /\
  map fst (Stream.cp_updates (ugen rows start position)) = map va_pos (concat rows).
Proof.
  induction rows as [|r t IH]; intros start position L; cbn [Stream.update_generations]; [split; reflexivity|].
  rewrite StreamProofs.lenN_cons in L.
  destruct (N.ltb_spec Stream.gen_u32_max position); [lia|].
  destruct (N.ltb_spec Stream.gen_u32_max (start + position)); [lia|].
  destruct (IH start (position + 1)) as [C U]; [lia|]. cbn [Stream.cp_crash Stream.cp_updates concat]. split; [exact C|].
  rewrite !map_app, map_map, U. reflexivity.
Qed.

Lemma ne_rows_le (m : Stream.matrix vagg) :
  Stream.lenN (Stream.nonempty_rows vagg m) <= Stream.lenN (Stream.matrix_iter vagg m).
Proof.
  unfold Stream.nonempty_rows, Stream.matrix_iter. generalize (map snd (Stream.m_cells m)). intros l.
  induction l as [|r l IH]; cbn [filter concat]; [apply N.le_refl|]. unfold Stream.row_nonempty at 1.
  destruct r as [|v r]; cbn [Stream.is_nil negb app]; [exact IH|].
  rewrite StreamProofs.lenN_cons, StreamProofs.lenN_cons, StreamProofs.lenN_app. lia.
Qed.

Lemma plan_seq_ok a b : Stream.cp_crash a = None ->
  Stream.cp_crash (Stream.plan_seq a b) = Stream.cp_crash (b tt) /\
  Stream.cp_updates (Stream.plan_seq a b) = Stream.cp_updates a ++ Stream.cp_updates (b tt).
Proof. intros H. unfold Stream.plan_seq. rewrite H. split; reflexivity. Qed.

Lemma gen_idx_small n : n <= Stream.gen_u32_max -> Stream.gen_idx_from_usize n = Stream.SOk n.
Proof. intros L. unfold Stream.gen_idx_from_usize. destruct (N.leb_spec n Stream.gen_u32_max); [reflexivity|lia]. Qed.

(* Stream::compactify *)
Lemma stream_compactify_ok s : stream_small s ->
  Stream.cp_crash (snd (scompact s)) = None /\
  map fst (Stream.cp_updates (snd (scompact s))) = map va_pos (siter s).
Proof.
  intros [L B]. pose proof StreamProofs.max_size_fits_u32 as M.
  pose proof (ne_rows_le (Stream.s_prev s)) as Lp. pose proof (ne_rows_le (Stream.s_cur s)) as Lc. pose proof (ne_rows_le (Stream.s_new s)) as Ln.
  assert (Stream.lenN (siter s) = Stream.lenN (Stream.matrix_iter vagg (Stream.s_prev s)) +
          Stream.lenN (Stream.matrix_iter vagg (Stream.s_cur s)) + Stream.lenN (Stream.matrix_iter vagg (Stream.s_new s))) as El.
  { unfold Stream.stream_iter. rewrite !StreamProofs.lenN_app. lia. }
  unfold Stream.stream_compactify. cbn [snd]. unfold Stream.matrix_slice_iter, Stream.generations_count.
  rewrite !StreamProofs.skipN_0, !StreamProofs.ne_remove_empty. cbn [Stream.remove_empty_generations Stream.m_len].
  set (rp := Stream.nonempty_rows vagg (Stream.s_prev s)) in *.
  set (rc := Stream.nonempty_rows vagg (Stream.s_cur s)) in *.
  set (rn := Stream.nonempty_rows vagg (Stream.s_new s)) in *.
  destruct (update_generations_ok rp 0 0) as [C1 U1]; [lia|].
  destruct (update_generations_ok rc (Stream.lenN rp) 0) as [C2 U2]; [lia|].
  destruct (update_generations_ok rn (Stream.lenN rp + Stream.lenN rc) 0) as [C3 U3]; [lia|].
  rewrite (gen_idx_small (Stream.lenN rp)) by lia. rewrite (gen_idx_small (Stream.lenN rc)) by lia.
  cbn [Stream.plan_of_count].
  destruct (N.ltb_spec Stream.gen_u32_max (Stream.lenN rp + Stream.lenN rc)); [lia|].
  match goal with |- Stream.cp_crash (Stream.plan_seq ?a ?b) = _ /\ _ => destruct (plan_seq_ok a b C1) as [-> ->] end.
  match goal with |- Stream.cp_crash (Stream.plan_seq ?a ?b) = _ /\ _ => destruct (plan_seq_ok a b C2) as [-> ->] end.
  split; [exact C3|]. rewrite !map_app, U1, U2, U3. unfold Stream.stream_iter. rewrite !map_app.
  rewrite !StreamProofs.iter_ne. reflexivity.
Qed.

Lemma descriptors_compactify_ok ds : (forall d, In d ds -> stream_small (d_stream d)) ->
  Stream.cp_crash (snd (dcompact ds)) = None /\
  map fst (Stream.cp_updates (snd (dcompact ds))) = map va_pos (descs_values ds).
Proof.
  induction ds as [|d t IH]; intros S; cbn [Stream.descriptors_compactify]; [split; reflexivity|].
  pose proof (stream_compactify_ok (d_stream d) (S d (or_introl eq_refl))) as [C U].
  destruct (scompact (d_stream d)) as [s' pl]. destruct IH as [Ct Ut]; [intros d' Hd'; apply S; right; exact Hd'|].
  destruct (dcompact t) as [t' plt]. cbn [snd] in *.
  destruct (plan_seq_ok pl (fun _ => plt) C) as [-> ->]. split; [exact Ct|].
  rewrite map_app, U, Ut, descs_values_cons, map_app. reflexivity.
Qed.

Lemma tbl_small_cons k ds (t : streams) : tbl_small ((k, ds) :: t) ->
  (forall d, In d ds -> stream_small (d_stream d)) /\ tbl_small t.
Proof.
  intros S. split; [intros d Hd; apply (S k ds d (or_introl eq_refl) Hd)|].
  intros k' ds' d Hk Hd. apply (S k' ds' d (or_intror Hk) Hd).
Qed.

Lemma all_updates_positions (m : streams) : tbl_small m ->
  map fst (DetSpec.all_updates vagg va_pos m) = map va_pos (tbl_values m).
Proof.
  unfold DetSpec.all_updates. induction m as [|[k ds] t IH]; intros S; [reflexivity|].
  apply tbl_small_cons in S as [Sd St]. cbn [map concat snd]. rewrite map_app, tbl_values_cons, map_app, (IH St).
  rewrite (proj2 (descriptors_compactify_ok ds Sd)). reflexivity.
Qed.

Lemma key_plans_no_crash (m : streams) order : tbl_small m ->
  Forall (fun p => Stream.cp_crash p = None) (map (DetSpec.key_plan vagg va_pos m) order).
Proof.
  intros S. apply Forall_forall. intros p Hp. apply in_map_iff in Hp as (k & <- & _). unfold DetSpec.key_plan.
  destruct (Stream.map_get vagg m k) as [ds|] eqn:G; [|reflexivity].
  apply descriptors_compactify_ok. intros d Hd. apply (S k ds d (map_get_in _ _ _ G) Hd).
Qed.

(* Streams::compactify of one table, names in map order *)
Lemma streams_compactify_ok (m : streams) : NoDup (keys m) -> tbl_small m ->
  Stream.cp_crash (snd (Stream.streams_compactify vagg va_pos (keys m) m)) = None /\
  map fst (Stream.cp_updates (snd (Stream.streams_compactify vagg va_pos (keys m) m))) = map va_pos (tbl_values m).
Proof.
  intros N S. destruct (DetProofs.scomp_char vagg va_pos (keys m) m N N) as [_ ->].
  pose proof (key_plans_no_crash m (keys m) S) as F. split; [apply DetProofs.plans_seq_crash, F|].
  rewrite (DetProofs.plans_seq_updates _ F), <- (DetProofs.all_updates_as_keys vagg va_pos m N). apply all_updates_positions, S.
Qed.

(* ------------------------------------------------------------------------------------------ *)
(* 8. corollaries *)

(* farewell: one table *)
Lemma compactify_table_ok t x : NoDup (keys (table_of t x)) -> tbl_small (table_of t x) ->
  (forall v, In v (tbl_values (table_of t x)) -> gen_at (res_trace x) (va_pos v)) ->
  exists y, compactify_table t x = XOk y /\
            (forall t', t' <> t -> table_of t' y = table_of t' x) /\
            (forall q, CodesSpec.gen_state_at (res_trace y) q = CodesSpec.gen_state_at (res_trace x) q).
Proof.
  intros K S G. unfold compactify_table.
  destruct (streams_compactify_ok (table_of t x) K S) as [C U].
  destruct (Stream.streams_compactify vagg va_pos (keys (table_of t x)) (table_of t x)) as [m pl]. cbn [snd] in *.
  unfold run_compact_plan.
  destruct (CodesProofs.compactify_sufficient (x_handler (with_table t x m)) pl) as (h' & R & Kq); [|exact C|].
  - apply forallb_forall. intros [p g] Hin. cbn [fst]. rewrite handler_with_table.
    assert (In p (map fst (Stream.cp_updates pl))) as Hp by (apply in_map_iff; exists (p, g); auto).
    rewrite U in Hp. apply in_map_iff in Hp as (v & <- & Hv). apply G, Hv.
  - rewrite R. eexists. split; [reflexivity|]. split.
    + intros t' Ne. change (table_of t' (set_handler (with_table t x m) h')) with (table_of t' (with_table t x m)).
      rewrite table_with_table. destruct t, t'; try reflexivity; contradiction.
    + intros q. unfold res_trace. cbn [x_handler set_handler]. rewrite Kq, handler_with_table. reflexivity.
Qed.

Theorem finish_total : finish_total_stmt.
Proof.
  intros x H. rewrite P_unfold in H. destruct H as (_ & [G _] & [K S]). unfold finish_streams.
  destruct (compactify_table_ok TStreams x (K TStreams) (S TStreams)) as (y & -> & Ty & Gy).
  { intros v Hv. apply G. unfold ctx_values. apply in_or_app. left. exact Hv. }
  assert (table_of TMaps y = table_of TMaps x) as Em by (apply Ty; discriminate).
  destruct (compactify_table_ok TMaps y) as (z & -> & _).
  - rewrite Em. apply K.
  - rewrite Em. apply S.
  - intros v Hv. unfold gen_at. rewrite Gy. apply G. unfold ctx_values. apply in_or_app. right. rewrite <- Em. exact Hv.
  - eauto.
Qed.

(* DESIGN 6/C02 compactify_total: the farewell compactification of a run cannot fail *)
Theorem compactify_total : compactify_total_stmt.
Proof.
  intros fuel i x E. apply finish_total. pose proof (stream_pos_run fuel i) as R.
  destruct E as [E|[c E]]; rewrite E in R; exact R.
Qed.

Theorem compactify_ok_run2 : compactify_ok_run2_stmt.
Proof.
  intros sp fuel l w x. unfold CodesSpec.farewell_ctx.
  destruct (RunTop.execute_air run_input l w) as [|i fl]; [discriminate|].
  pose proof (stream_pos_run fuel i) as R.
  destruct (exec stream_instr fuel (ri_script i) (initial_ctx i)) as [y|e y| | |]; try discriminate.
  - destruct (sp y); [|discriminate]. intros [= <-]. apply finish_total, R.
  - destruct e as [c|u]; [|discriminate]. destruct (sp y); [|discriminate]. intros [= <-]. apply finish_total, R.
Qed.

Theorem fail_keeps_prev_run2 : C02_fail_keeps_prev_run2_stmt.
Proof.
  intros sp sr ser fuel l w prev r. apply CodesProofs.fail_keeps_prev. apply compactify_ok_run2.
Qed.
Theorem code_classes_run2 : C02_code_classes_run2_stmt.
Proof.
  intros sp sr ser fuel l w prev r. apply CodesProofs.code_classes. apply compactify_ok_run2.
Qed.

(* C20: unique stream names, stream values at pairwise different trace positions *)
Lemma nodup_app_r {A} (l r : list A) : NoDup (l ++ r) -> NoDup r.
Proof. intros N. apply (Permutation_NoDup (Permutation_app_comm l r)) in N. apply nodup_app_l in N. exact N. Qed.

Theorem streams_ok_of_inv : streams_ok_of_inv_stmt.
Proof.
  intros x H. rewrite P_unfold in H. destruct H as (_ & [_ N] & [K S]).
  unfold ctx_values in N. rewrite map_app in N.
  unfold DetSpec.streams_ok, DetSpec.table_ok, DetSpec.keys_unique, DetSpec.positions_disjoint.
  rewrite !all_updates_positions by apply S.
  split; (split; [apply K|]); [apply nodup_app_l in N|apply nodup_app_r in N]; exact N.
Qed.

Theorem streams_ok_run : streams_ok_run_stmt.
Proof.
  intros fuel i x E. apply streams_ok_of_inv. pose proof (stream_pos_run fuel i) as R.
  destruct (exec stream_instr fuel (ri_script i) (initial_ctx i)) as [y|e y| | |]; try discriminate.
  - injection E as <-. exact R.
  - destruct e; [|discriminate]. injection E as <-. exact R.
Qed.

Theorem order_irrelevant_run2 : C20_order_irrelevant_run2_stmt.
Proof.
  intros o o' fuel i V V'. apply DetProofs.C20_order_irrelevant; [exact V|exact V'|]. apply streams_ok_run.
Qed.
