"""C26 -- the interpreter's JSON value type is faithful to JSON."""
import json
import struct

import vlib

PID = "C26"
MODEL_TARGETS = ["model/JsonTextCases.vo"]
HARNESS_BINS = ["jsonval"]
RULE = ("structured JSON texts (nested arrays/objects, empty containers, duplicate and escaped keys, every escape class, "
        "control characters, BMP and non-BMP characters raw and as surrogate-pair escapes, integers at +-2^63, 2^64-1, 2^64, "
        "alternative number spellings), random and boundary f64 bit patterns, values nested up to 130 containers, and a separate "
        "stream of malformed texts; every text is parsed by JValue and by serde_json::Value, every resulting value is printed, "
        "re-parsed, converted to serde_json::Value and back, compared with a partner value and with constants; "
        "distinct = distinct canonical texts of values that are containers or hold a float, an integer beyond 2^53 or a string "
        "that needs escaping or is not ASCII, plus distinct rejected texts")
PARTIAL = [
    "f64 <-> text is outside the model: a float is its canonical (ryu) text, the float reader is the parameter parse_float of the "
    "parser and the round-trip theorem has the premise `float_fixed parse_float r` (r is a float token that reads back as itself) "
    "for every float of the value; the check measures that premise on the real code and it FAILS for about one f64 in five "
    "(known finding float-reparse-inexact: serde_json is built without its float_roundtrip feature)",
    "C26_roundtrip_full (no depth premise) is refuted in the model (C26_roundtrip_refuted: 128 nested arrays) exactly as in the code: "
    "serde_json::from_str has a recursion limit of 128 while to_string has none (known finding recursion-limit-128); the proved "
    "theorem C26_roundtrip has the premise json_depth j < 128",
    "eq_f64 / eq_f32 against an INTEGER value go through `as f64` (rounding), which is a parameter (int_to_f64) of the model; the "
    "theorem covers float values, the check compares the integer case with serde_json::Value's answer",
]
ASSUMPTIONS = [
    "translator tools/genx_jsonvalue.py: JValue's variants, Map = BTreeMap with preserve_order requested nowhere, the serde_json version "
    "and dependency list of Cargo.lock, the features requested for serde_json in the workspace manifests, serde_json's recursion limit "
    "and HEX_DIGITS (read from the registry source of the locked version), the visitor / From shapes and the partial_eq.rs tables; "
    "C26_source_tie proves by computation that they are what model/JsonText.v mirrors",
    "parse_float : string -> option string (serde_json's f64 reader followed by ryu) is a parameter of parse; the theorems "
    "C26_roundtrip / C26_prefix quantify over it and assume float_fixed parse_float r for each float r of the value "
    "(float_token r = true and parse_float r = Some r); in the correspondence it is tabulated per text by the harness",
    "int_to_f64 : Z -> string (`as f64`) is a parameter of eq_f64",
    "a Rust str is valid UTF-8; the model's strings are arbitrary byte sequences (the theorems hold for all of them)",
    "serde_json 1.0.108 without preserve_order / arbitrary_precision / float_roundtrip (as locked in /repo/Cargo.lock: the serde_json "
    "entry depends on itoa, ryu, serde only; no manifest of the workspace names one of these features)",
]

HEADER = "From Aqua Require Import Base Json JsonText JsonTextCases.\nOpen Scope N_scope.\nOpen Scope string_scope.\n"
TYPE = "case_t"

I64_MIN, I64_MAX, U64_MAX = -2 ** 63, 2 ** 63 - 1, 2 ** 64 - 1
BOUNDARY_INTS = [0, 1, -1, 9, 10, 255, 2 ** 31 - 1, -2 ** 31, 2 ** 32, 2 ** 53 - 1, 2 ** 53, 2 ** 53 + 1, I64_MAX - 1, I64_MAX, I64_MAX + 1,
                 I64_MIN + 1, I64_MIN, I64_MIN - 1, U64_MAX - 1, U64_MAX, U64_MAX + 1, 10 ** 19, -10 ** 19, 10 ** 20, 10 ** 30, -(2 ** 64)]
NUM_SPELLINGS = ["-0", "0.0", "-0.0", "1.0", "1E2", "1e+2", "1e-2", "0.5", "0.1", "0.1e1", "1.5e300", "5e-324", "4.9e-324", "1.7976931348623157e308",
                 "2.2250738585072014e-308", "1e-400", "0e99999999999", "1e-99999999999", "0.0000000000000000000000000000000001",
                 "123456789012345678901234567890", "18446744073709551615.0", "9223372036854775807.5", "1e22", "1e23", "31.245270191439438",
                 "0.30000000000000004", "100000000000000000000000.0", "12345678901234567890123.456e-5", "3.141592653589793", "2.5", "1e16",
                 "1.0e0", "0e0", "-1E-0", "1.7976931348623158e308", "0.000001", "1e21", "123456.789e3"]
OUT_OF_RANGE = ["1e400", "-1e400", "1e309", "1.8e308", "1e99999999999", "-123e999"]
F64_SPECIAL_BITS = [0, 1 << 63, 1, 0x000FFFFFFFFFFFFF, 0x0010000000000000, 0x7FEFFFFFFFFFFFFF, 0xFFEFFFFFFFFFFFFF, 0x3FF0000000000000,
                    0x4340000000000000, 0x43E0000000000000, 0x43F0000000000000, 0xC3E0000000000000, 0x3FB999999999999A, 0x7FF0000000000000,
                    0xFFF0000000000000, 0x7FF8000000000000, 0x4330000000000000, 0x3CB0000000000000, 0x408D118ACA7B6E0B]
STR_ATOMS_PLAIN = ["", "a", "abc", "key", "hello world", "x", "0", "-1", "true", "null", "A", "~", "\x7f", " ", "{}", "[]", ",", ":"]
CONTROL = [chr(i) for i in range(0x20)]
BMP = ["\u00e9", "\u00ff", "\u0100", "\u07ff", "\u0800", "\u4f60", "\ud7ff", "\ue000", "\ufffd", "\uffff", "\u2028", "\u0080"]
NON_BMP = ["\U0001F600", "\U00010000", "\U0010FFFF", "\U0002A6B2"]
SIMPLE_ESC = {'"': '\\"', "\\": "\\\\", "/": "\\/", "\b": "\\b", "\f": "\\f", "\n": "\\n", "\r": "\\r", "\t": "\\t"}


def f64_bits(f):
    return struct.unpack("<Q", struct.pack("<d", f))[0]


# ---- abstract values and their spellings -----------------------------------------------------------

def gen_string(rng, short=False):
    n = rng.choice([0, 1, 1, 2, 3]) if short else rng.choice([0, 1, 2, 3, 5, 8])
    out = []
    for _ in range(n):
        r = rng.random()
        if r < 0.35:
            out.append(rng.choice(STR_ATOMS_PLAIN))
        elif r < 0.5:
            out.append(rng.choice(['"', "\\", "/", '\\"', "\\\\", "\\u0041", "\\n"]))     # including texts that LOOK like escapes
        elif r < 0.7:
            out.append(rng.choice(CONTROL))
        elif r < 0.85:
            out.append(rng.choice(BMP))
        else:
            out.append(rng.choice(NON_BMP))
    return "".join(out)


def gen_number(rng):
    r = rng.random()
    if r < 0.3:
        return ("int", rng.choice(BOUNDARY_INTS))
    if r < 0.45:
        return ("int", rng.randrange(-2 ** 63 - 5, 2 ** 64 + 5))
    if r < 0.55:
        return ("int", rng.randrange(-1000, 1000))
    if r < 0.85:
        return ("num", rng.choice(NUM_SPELLINGS))
    if r < 0.93:
        return ("num", repr(rng.uniform(-1e6, 1e6)))
    return ("num", repr(rng.random() * 10.0 ** rng.randint(-300, 300)))


def gen_tree(rng, depth):
    r = rng.random()
    if depth <= 0 or r < 0.45:
        k = rng.random()
        if k < 0.12:
            return ("lit", rng.choice(["null", "true", "false"]))
        if k < 0.55:
            return gen_number(rng)
        return ("str", gen_string(rng))
    if r < 0.72:
        n = rng.choice([0, 0, 1, 2, 3, 4])
        return ("arr", [gen_tree(rng, depth - 1) for _ in range(n)])
    n = rng.choice([0, 0, 1, 2, 3, 5])
    members = []
    for _ in range(n):
        if members and rng.random() < 0.15:
            key = rng.choice(members)[0]            # duplicate key: the last one wins
        else:
            key = gen_string(rng, short=True)
        members.append((key, gen_tree(rng, depth - 1)))
    return ("obj", members)


def ws(rng):
    return rng.choice(["", "", "", " ", "\n", "\t", "\r", "  \n"])


def spell_string(rng, s, plain=False):
    out = ['"']
    for ch in s:
        o = ord(ch)
        if o < 0x20:
            if ch in SIMPLE_ESC and rng.random() < 0.6:
                out.append(SIMPLE_ESC[ch])
            else:
                out.append(("\\u%04x" if rng.random() < 0.5 else "\\u%04X") % o)
        elif ch in '"\\':
            out.append(SIMPLE_ESC[ch] if rng.random() < 0.8 else "\\u%04x" % o)
        elif plain or rng.random() < 0.75:
            out.append(ch)
        elif ch == "/":
            out.append("\\/")
        elif o < 0x10000:
            out.append(("\\u%04x" if rng.random() < 0.5 else "\\u%04X") % o)
        else:
            v = o - 0x10000
            hi, lo = 0xD800 + (v >> 10), 0xDC00 + (v & 0x3FF)
            out.append(("\\u%04x\\u%04x" if rng.random() < 0.5 else "\\u%04X\\u%04x") % (hi, lo))
    out.append('"')
    return "".join(out)


def spell(rng, t, shuffle=False):
    kind = t[0]
    if kind == "lit":
        return t[1]
    if kind == "int":
        return str(t[1])
    if kind == "num":
        return t[1]
    if kind == "str":
        return spell_string(rng, t[1])
    if kind == "arr":
        return "[" + ws(rng) + ("," + ws(rng)).join(spell(rng, x, shuffle) + ws(rng) for x in t[1]) + "]"
    members = list(t[1])
    if shuffle and len({k for k, _ in members}) == len(members):
        rng.shuffle(members)
    return "{" + ws(rng) + ("," + ws(rng)).join(spell_string(rng, k) + ws(rng) + ":" + ws(rng) + spell(rng, v, shuffle) + ws(rng)
                                                  for k, v in members) + "}"


def mutate_tree(rng, t):
    """a tree that differs from t in one place (or, rarely, not at all)"""
    kind = t[0]
    if kind == "arr" and t[1] and rng.random() < 0.7:
        i = rng.randrange(len(t[1]))
        return ("arr", t[1][:i] + [mutate_tree(rng, t[1][i])] + t[1][i + 1:])
    if kind == "obj" and t[1] and rng.random() < 0.7:
        i = rng.randrange(len(t[1]))
        k, v = t[1][i]
        if rng.random() < 0.3:
            return ("obj", t[1][:i] + [(k + "x", v)] + t[1][i + 1:])
        return ("obj", t[1][:i] + [(k, mutate_tree(rng, v))] + t[1][i + 1:])
    if kind == "int":
        return ("int", t[1] + rng.choice([1, -1])) if rng.random() < 0.7 else ("num", str(t[1]) + ".0")
    if kind == "num":
        return ("num", {"0.0": "-0.0", "-0.0": "0.0", "-0": "0.0"}.get(t[1], "0.5"))
    if kind == "str":
        return ("str", t[1] + rng.choice(["a", "é", "\x00"]))
    if kind == "lit":
        return ("lit", {"null": "false", "true": "false", "false": "true"}[t[1]])
    return gen_tree(rng, 1)


def mixed_for(rng, t):
    m = {"i64": [str(x) for x in rng.sample([0, 1, -1, I64_MIN, I64_MAX, 42, -2 ** 53, 2 ** 31], 3)],
         "u64": [str(x) for x in rng.sample([0, 1, U64_MAX, I64_MAX, I64_MAX + 1, 2 ** 53 + 1, 42], 3)],
         "bool": [True, False],
         "str": rng.sample(["", "a", "null", "1", "é", "\U0001F600", "x\ny"], 2),
         "f64_bits": [str(x) for x in rng.sample(F64_SPECIAL_BITS[:13], 3)],
         "f32_bits": [str(x) for x in rng.sample([0, 0x80000000, 0x3F800000, 0x3DCCCCCD, 0x7F7FFFFF, 0x5F000000, 0x4B800000], 2)]}
    kind = t[0]
    if kind == "int":
        v = t[1]
        if I64_MIN <= v <= I64_MAX:
            m["i64"].append(str(v))
        if 0 <= v <= U64_MAX:
            m["u64"].append(str(v))
        if abs(v) < 2 ** 70:
            m["f64_bits"].append(str(f64_bits(float(v))))
            m["f64_bits"].append(str(f64_bits(float(v)) + 1))
    elif kind == "num":
        try:
            f = float(t[1])
            if f == f and abs(f) != float("inf"):
                m["f64_bits"].append(str(f64_bits(f)))
                f32 = struct.unpack("<f", struct.pack("<f", f))[0] if abs(f) < 3e38 else 0.0
                m["f32_bits"].append(str(struct.unpack("<I", struct.pack("<f", f32))[0]))
                if abs(f) < 2 ** 63 and f == int(f):
                    m["i64"].append(str(int(f)))
                    if f >= 0:
                        m["u64"].append(str(int(f)))
        except (ValueError, OverflowError):
            pass
    elif kind == "str":
        m["str"].append(t[1])
    elif kind == "lit" and t[1] in ("true", "false"):
        pass
    return m


# ---- malformed texts ---------------------------------------------------------------------------------

MALFORMED_FIXED = [
    "", " ", "\n", "nul", "nulll", "True", "tru", "falsE", "NaN", "Infinity", "-Infinity", "-", "+1", "01", "-01", "00", "1.", ".5", "1.e3", "1e", "1e+",
    "1E-", "--1", "1..2", "1.2.3", "0x10", "1_000", "1 2", "1,", "[", "]", "[1", "[1,", "[1,]", "[,1]", "[1 2]", "[1,,2]", "[1;2]", "{", "}", "{,}",
    '{"a"}', '{"a":}', '{"a":1,}', "{1:2}", "{a:1}", "{'a':1}", '{"a":1 "b":2}', '{"a":1,,"b":2}', '{"a"::1}', '{"a":1}}', "[[]", "[]]", '"', '"abc',
    '"\\"', '"\\x41"', '"\\u12"', '"\\u12G4"', '"\\ud800"', '"\\ud800x"', '"\\ud800\\n"', '"\\ud800\\u0041"', '"\\udc00"', '"\\udfff\\ud800"',
    '"\\uD800\\uD800"', '"a\nb"', '"a\tb"', '"\x00"', '"\x1f"', "'a'", "/* c */ 1", "// c\n1", "1 // c", "\ufeff1", "\u00a01", "1 ", "\x0c1", "\x0b1",
    "[1]\x00", "nullx", "truefalse", "1e400", "-1e400", "1e309", "[1e400]", '{"a":1e999}', "1e99999999999", "-1e99999999999", "1.5e+99999999999",
    "[" * 128 + "]" * 128, "[" * 129 + "]" * 129, '{"a":' * 128 + "1" + "}" * 128, "[" * 127 + "]" * 127, "[" * 127 + "[" + "]" * 127,
    "[" * 64 + '{"k":' * 64 + "[]" + "}" * 64 + "]" * 64, "[" * 200,
]
INSERTABLE = list('[]{},:"\\ \n\t0123456789eE+-.tfnul/') + ["\x00", "\x1f", "\x7f", "é", "\U0001F600", "\\u", "\\ud800", "\\udc00", "\\", '\\"']


def corrupt(rng, text):
    k = rng.random()
    if not text:
        return rng.choice(INSERTABLE)
    i = rng.randrange(len(text))
    if k < 0.25:
        return text[:i] + text[i + 1:]
    if k < 0.55:
        return text[:i] + rng.choice(INSERTABLE) + text[i:]
    if k < 0.75:
        return text[:i] + rng.choice(INSERTABLE) + text[i + 1:]
    if k < 0.88:
        return text[:i]
    if k < 0.94:
        return text + rng.choice(INSERTABLE)
    j = rng.randrange(len(text))
    return text[:min(i, j)] + text[max(i, j):]


def encodable(s):
    try:
        s.encode("utf-8")
        return True
    except UnicodeEncodeError:
        return False


# ---- cases -------------------------------------------------------------------------------------------

def gen_cases(rng, tier, escalate=False):
    mult = 3 if escalate else 1
    n_values = {"quick": 320, "thorough": 4500}[tier] * mult
    n_bad = {"quick": 160, "thorough": 2500}[tier] * mult
    n_f64 = {"quick": 120, "thorough": 1500}[tier] * mult
    cases = []
    # boundary integers and spellings, each alone (scalars are where the mixed comparisons bite)
    for v in BOUNDARY_INTS:
        t = ("int", v)
        cases.append({"kind": "text", "text": str(v), "other": spell(rng, mutate_tree(rng, t)), "mixed": mixed_for(rng, t), "gen": "boundary"})
    for s in NUM_SPELLINGS:
        t = ("num", s)
        cases.append({"kind": "text", "text": s, "other": rng.choice(NUM_SPELLINGS), "mixed": mixed_for(rng, t), "gen": "spelling"})
        cases.append({"kind": "text", "text": "-" + s if not s.startswith("-") else s[1:], "gen": "spelling"})
    for ch in CONTROL + BMP + NON_BMP + ['"', "\\", "/", "\x7f"]:
        t = ("str", ch)
        cases.append({"kind": "text", "text": spell_string(rng, ch), "other": spell_string(rng, ch), "mixed": mixed_for(rng, t), "gen": "char"})
        if ord(ch) >= 0x20:
            cases.append({"kind": "text", "text": spell_string(rng, ch, plain=True), "gen": "char"})
    for lit in ("null", "true", "false"):
        cases.append({"kind": "text", "text": lit, "other": "false", "mixed": mixed_for(rng, ("lit", lit)), "gen": "literal"})
    # structured values
    for _ in range(n_values):
        depth = rng.choice([0, 1, 1, 2, 2, 3, 4])
        t = gen_tree(rng, depth)
        c = {"kind": "text", "text": ws(rng) + spell(rng, t) + ws(rng), "gen": "tree"}
        r = rng.random()
        if r < 0.3:
            c["other"] = spell(rng, t, shuffle=True)
        elif r < 0.7:
            c["other"] = spell(rng, mutate_tree(rng, t), shuffle=True)
        elif r < 0.8:
            c["other"] = spell(rng, gen_tree(rng, depth))
        if depth == 0 or rng.random() < 0.25:
            c["mixed"] = mixed_for(rng, t)
        cases.append(c)
    # nesting depth around serde_json's recursion limit
    depths = [1, 2, 3, 64, 126, 127, 128, 129, 130] if tier == "quick" else [1, 2, 3, 17, 64, 100, 120, 125, 126, 127, 128, 129, 130, 131, 160]
    for d in depths:
        for shape in ("array", "object", "mixed"):
            cases.append({"kind": "deep", "depth": d, "shape": shape, "gen": "deep"})
    # f64 values built from bit patterns (not from texts)
    for b in F64_SPECIAL_BITS:
        cases.append({"kind": "f64", "bits": str(b), "other_bits": str(b ^ (1 << 63)), "mixed": {"f64_bits": [str(b), str(b ^ (1 << 63)), str(b ^ 1)]},
                      "gen": "f64"})
    for i in range(n_f64):
        k = i % 4
        if k == 0:
            b = rng.getrandbits(64)
        elif k == 1:
            b = f64_bits(rng.uniform(-1000, 1000))
        elif k == 2:
            b = f64_bits(rng.random() * 10.0 ** rng.randint(-30, 30))
        else:
            b = f64_bits(float(rng.randrange(-2 ** 70, 2 ** 70)))
        cases.append({"kind": "f64", "bits": str(b), "other_bits": str(b ^ rng.choice([0, 1, 1 << 63])), "gen": "f64"})
    # malformed stream
    for s in MALFORMED_FIXED + ["[" + s + "]" for s in OUT_OF_RANGE] + OUT_OF_RANGE:
        cases.append({"kind": "text", "text": s, "gen": "malformed"})
    made = 0
    while made < n_bad:
        t = gen_tree(rng, rng.choice([0, 1, 2, 2, 3]))
        s = spell(rng, t)
        for _ in range(rng.choice([1, 1, 2])):
            s = corrupt(rng, s)
        if encodable(s):
            cases.append({"kind": "text", "text": s, "gen": "malformed"})
            made += 1
    return cases


BIG = 2 ** 53


def nontrivial(info):
    kinds = set(info.get("kinds", []))
    if kinds & {"array", "object", "float", "str:control", "str:quote-backslash", "str:bmp-non-ascii", "str:non-bmp"}:
        return True
    canon = info.get("canonical", "")
    try:
        return abs(int(canon)) >= BIG
    except ValueError:
        return False


def finding_key(info, failed):
    """known-finding key of an oracle failure (None: unknown, i.e. a violation)"""
    if failed == {"o_roundtrip"} and info.get("kind") == "value":
        if info.get("reparse") == "rejected" and info.get("depth", 0) >= 128:
            return "recursion-limit-128"
        if info.get("reparse") == "float-only":
            return "float-reparse-inexact"
    return None


def evaluate(cases, result, tier):
    if not cases:
        return
    outs = vlib.harness_lines("jsonval", [json.dumps(c) for c in cases])
    terms, owner = [], []
    for ci, o in enumerate(outs):
        if "error" in o:
            result["errors"].append("%s on case %s" % (o["error"], json.dumps(cases[ci])[:300]))
            continue
        for ti, t in enumerate(o["coq"]):
            terms.append(t)
            owner.append((ci, ti))
            result["evaluations"] += 1
        for cl in o["classes"]:
            result["distribution"][cl] = result["distribution"].get(cl, 0) + 1
        g = "gen/" + cases[ci].get("gen", "replay")
        result["distribution"][g] = result["distribution"].get(g, 0) + 1
        for inf in o["info"]:
            if inf.get("kind") == "value" and nontrivial(inf):
                result["distinct"].add("v:" + inf.get("canonical", ""))
            elif inf.get("kind") == "text" and inf.get("class", "").startswith("text/rejected"):
                result["distinct"].add("t:" + cases[ci].get("text", "")[:400])
        if len(result["samples"]) < 3 and len(o["coq"]) >= 2 and cases[ci].get("gen") == "tree":
            result["samples"].append({"case": cases[ci], "terms": [t[:600] for t in o["coq"][:3]]})
    if not terms:
        return
    checks = {"model": "check_case", "oracle": "c26_oracle", "o_roundtrip": "c26_oracle_roundtrip", "o_conv": "c26_oracle_conv",
              "o_eq": "c26_oracle_eq", "o_mixed": "c26_oracle_mixed", "o_text": "c26_oracle_text"}
    fails, errs = vlib.coq_eval_cases("jsonval", HEADER, TYPE, checks, terms, shard_size=120)
    result["errors"].extend(errs)
    for i in fails["model"]:
        ci, ti = owner[i]
        result["mismatch"].append({"case": dict(cases[ci]), "term_index": ti, "term": terms[i][:4000],
                                   "what": "model/JsonText.v (print / parse / conversions / comparisons) disagrees with the implementation"})
    sub = {n: set(fails[n]) for n in checks if n.startswith("o_")}
    for i in fails["oracle"]:
        ci, ti = owner[i]
        info = outs[ci]["info"][ti] if ti < len(outs[ci]["info"]) else {}
        failed = {n for n in sub if i in sub[n]}
        key = finding_key(info, failed)
        label = "oracle-fail/" + (key or "+".join(sorted(failed)) or "unclassified")
        result["distribution"][label] = result["distribution"].get(label, 0) + 1
        result["oracle_fail"].append({"case": dict(cases[ci]), "term_index": ti, "term": terms[i][:4000], "info": info, "key": key,
                                      "failed": sorted(failed),
                                      "what": "the property oracle c26_oracle is false on the implementation's observation (%s)" % ", ".join(sorted(failed))})
