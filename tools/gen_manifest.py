#!/usr/bin/env python3
"""Writes /verif/MANIFEST.json from tools/manifest_table.json (general fields), tools/manifest_entries/Cxx.json (one file per claimed property: technique, text, note)
and properties.jsonl (everything else goes to not_applicable with its reason)."""
import json, os
ROOT = os.path.dirname(os.path.dirname(os.path.abspath(__file__)))
table = json.load(open(os.path.join(ROOT, "tools", "manifest_table.json")))
import glob
for f in sorted(glob.glob(os.path.join(ROOT, "tools", "manifest_entries", "C*.json"))):
    table["claimed"][os.path.basename(f)[:-5]] = json.load(open(f))
props = [json.loads(l) for l in open(os.path.join(ROOT, "properties.jsonl")) if l.strip()]
checks, na = [], []
for p in props:
    pid = p["id"]
    t = table["claimed"].get(pid)
    if t and os.path.exists(os.path.join(ROOT, "checks", pid + ".py")):
        checks.append({
            "property_id": pid,
            "quick_cmd": "./check %s --tier quick" % pid,
            "thorough_cmd": "./check %s --tier thorough" % pid,
            "evidence_file": "/verif/evidence/%s.json" % pid,
            "replay_cmd_template": "./check %s --replay {path}" % pid,
            "engine": "rocq-model+correspondence",
            "level_claimed": {"category": "proof", "text": t["text"], "design_ref": "DESIGN.md section 6, " + pid},
            "level_note": t["note"],
            "technique": t["technique"],
        })
    else:
        na.append({"property_id": pid, "reason": table["unclaimed"].get(pid, table["default_reason"])})
m = {
    "version": 1,
    "setup_cmd": "./setup.sh",
    "hooks": {
        "guard": "aquavm_verif",
        "enable": "RUSTFLAGS=\"--cfg aquavm_verif\" (no source hook exists today: the harness drives the public API of the crates natively)",
        "baseline_off_cmd": "cd /repo && cargo test --workspace --no-fail-fast --offline",
        "source_commits": table.get("hook_commits", []),
        "add_only": True,
    },
    "engines": [{
        "name": "rocq-model+correspondence", "path": "/verif/check",
        "serves_properties": [c["property_id"] for c in checks],
        "kind_free_text": "Coq 8.16.1 theorems over a hand-written Gallina model (coq/model, coq/proofs, coq/props) + translator "
                          "(tools/gen_model.py -> coq/gen/Generated.v, re-run on every check) + correspondence check: the Rust harness "
                          "(harness/, path-dependent on /repo) runs the real crates and prints inputs and observations as Coq terms, the "
                          "model is evaluated on them inside Coq (vm_compute) together with a boolean property oracle",
    }],
    "checks": checks,
    "not_applicable": na,
    "notes": table.get("notes", ""),
}
json.dump(m, open(os.path.join(ROOT, "MANIFEST.json"), "w"), indent=1)
print("MANIFEST.json: %d checks, %d not claimed" % (len(checks), len(na)))
