(* props/C08.v -- merge results do not depend on delivery order or grouping.
   Only pinned statements, [exact], non-vacuity examples and Print Assumptions. *)
From Aqua Require Import Base Trace Handler MergeSpec MergeFull MergeLaws.
Open Scope N_scope.
Open Scope list_scope.

(* the whole property: every set of data of an honest history, every two merge plans over it
   (stated over RunExec.run for every instantiation of its stream stage; NOT proved, see PARTIAL) *)
Definition C08_full : Prop :=
  forall es fs svc script init_peer timestamp ttl, C08_full_stmt es fs svc script init_peer timestamp ttl.

(* ---- the merge functions of the model are the decision tables found in /repo's sources today ---- *)
Theorem C08_source_tie : forall (C : Type) (ceqb : C -> C -> bool),
    merge_table_agrees_stmt C ceqb /\ merge_dispatch_agrees_stmt C ceqb.
Proof. exact (fun C ceqb => conj (merge_table_agrees C ceqb) (merge_dispatch_agrees C ceqb)). Qed.

(* ---- state level: calls ---- *)
(* both orders give the same error variant, or states equal up to the sender of a pending request
   and the generation number of a stream value *)
Theorem C08_call_join_comm : forall (C : Type) (ceqb : C -> C -> bool), ceqb_correct ceqb -> call_join_comm_stmt C ceqb.
Proof. exact call_join_comm. Qed.
(* "equal up to the sender" alone fails: a stream value keeps the generation of the previous side *)
Theorem C08_call_join_comm_mod_sender_refuted : forall (C : Type) (ceqb : C -> C -> bool), ceqb_correct ceqb ->
    forall c : C, exists a b, ~ res_rel_strict (call_sim_sender C) (merge_call C ceqb a b) (merge_call C ceqb b a).
Proof. exact call_join_comm_mod_sender_refuted. Qed.
(* ... and holds when no stream value is involved *)
Theorem C08_call_join_comm_mod_sender_nostream : forall (C : Type) (ceqb : C -> C -> bool), ceqb_correct ceqb ->
    call_join_comm_mod_sender_nostream_stmt C ceqb.
Proof. exact call_join_comm_mod_sender_nostream. Qed.
Theorem C08_call_join_assoc : forall (C : Type) (ceqb : C -> C -> bool), ceqb_correct ceqb -> call_join_assoc_stmt C ceqb.
Proof. exact call_join_assoc. Qed.
Theorem C08_call_join_defined_iff : forall (C : Type) (ceqb : C -> C -> bool), ceqb_correct ceqb -> call_join_defined_iff_stmt C ceqb.
Proof. exact call_join_defined_iff. Qed.
Theorem C08_call_join_lub : forall (C : Type) (ceqb : C -> C -> bool), ceqb_correct ceqb -> call_join_lub_stmt C ceqb.
Proof. exact call_join_lub. Qed.
Theorem C08_call_join_congr : forall (C : Type) (ceqb : C -> C -> bool), ceqb_correct ceqb -> call_join_congr_stmt C ceqb.
Proof. exact call_join_congr. Qed.

(* ---- state level: canon ---- *)
Theorem C08_canon_join_comm : forall (C : Type) (ceqb : C -> C -> bool), ceqb_correct ceqb -> canon_join_comm_stmt C ceqb.
Proof. exact canon_join_comm. Qed.
Theorem C08_canon_join_assoc : forall (C : Type) (ceqb : C -> C -> bool), ceqb_correct ceqb -> canon_join_assoc_stmt C ceqb.
Proof. exact canon_join_assoc. Qed.
Theorem C08_canon_join_defined_iff : forall (C : Type) (ceqb : C -> C -> bool), ceqb_correct ceqb -> canon_join_defined_iff_stmt C ceqb.
Proof. exact canon_join_defined_iff. Qed.
Theorem C08_canon_join_lub : forall (C : Type) (ceqb : C -> C -> bool), ceqb_correct ceqb -> canon_join_lub_stmt C ceqb.
Proof. exact canon_join_lub. Qed.

(* ---- state level: ap (generation numbers only; defined iff the previous state has one generation) ---- *)
Theorem C08_ap_join_comm : ap_join_comm_stmt.
Proof. exact ap_join_comm. Qed.
Theorem C08_ap_join_assoc : ap_join_assoc_stmt.
Proof. exact ap_join_assoc. Qed.
Theorem C08_ap_join_comm_naive_refuted : ~ ap_join_comm_naive_stmt.
Proof. exact ap_join_comm_naive_refuted. Qed.

(* ---- trace level: traces of one shape (call / canon / ap under nested par) ---- *)
Theorem C08_tjoin_comm : forall (C : Type) (ceqb : C -> C -> bool), ceqb_correct ceqb -> tjoin_comm_stmt C ceqb.
Proof. exact tjoin_comm. Qed.
Theorem C08_tjoin_assoc : forall (C : Type) (ceqb : C -> C -> bool), ceqb_correct ceqb -> tjoin_assoc_stmt C ceqb.
Proof. exact tjoin_assoc. Qed.
(* the handler computes that join (par sizes rebuilt by ParFSM included) ... *)
Theorem C08_replay_join_partial : forall (C : Type) (ceqb : C -> C -> bool), replay_join_stmt C ceqb.
Proof. exact replay_join. Qed.
(* ... so swapping previous and current data changes senders and generation numbers only *)
Theorem C08_replay_comm_partial : forall (C : Type) (ceqb : C -> C -> bool), ceqb_correct ceqb -> replay_comm_stmt C ceqb.
Proof. exact replay_comm. Qed.

(* ---------------- non-vacuity ---------------- *)
Example C08_string_ids_correct : ceqb_correct String.eqb.
Proof. exact String.eqb_eq. Qed.

(* the generation witness, and the error cases in both orders *)
Example C08_examples :
  merge_call string String.eqb (Executed (VRStream "c" 0)) (Executed (VRStream "c" 1)) = Ok (Executed (VRStream "c" 0)) /\
  merge_call string String.eqb (Executed (VRStream "c" 1)) (Executed (VRStream "c" 0)) = Ok (Executed (VRStream "c" 1)) /\
  merge_call string String.eqb (Failed "f") (Executed (VRScalar "c")) = Err IncompatibleCallResults /\
  merge_call string String.eqb (Executed (VRScalar "c")) (Failed "f") = Err IncompatibleCallResults /\
  merge_call string String.eqb (RequestSentBy (SPeer "A")) (RequestSentBy (SPeer "B")) = Ok (RequestSentBy (SPeer "A")) /\
  merge_call string String.eqb (RequestSentBy (SPeer "B")) (RequestSentBy (SPeer "A")) = Ok (RequestSentBy (SPeer "B")) /\
  merge_canon string String.eqb (CanonExecuted "k") (CanonExecuted "k'") = Err CanonIncompatibleState.
Proof. vm_compute. repeat split. Qed.

Definition ex_fp : list (tree string) :=
  [TPar [TLeaf (SCall (Executed (VRScalar "c1"))); TLeaf (SCall (RequestSentBy (SPeer "A")))]
        [TLeaf (SCall (RequestSentBy (SPeer "A"))); TLeaf (SCanon (CanonRequestSentBy "A"))];
   TLeaf (SCall (Executed (VRStream "s" 0)))].
Definition ex_fq : list (tree string) :=
  [TPar [TLeaf (SCall (RequestSentBy (SPeer "B"))); TLeaf (SCall (RequestSentBy (SPeer "B")))]
        [TLeaf (SCall (Failed "f1")); TLeaf (SCanon (CanonExecuted "k1"))];
   TLeaf (SCall (Executed (VRStream "s" 2)))].
Example C08_replay_example :
  (match replay string String.eqb ex_fp (handler_from string (flatten string ex_fp) (flatten string ex_fq)) with
   | Ok h => result_trace string h
   | _ => []
   end) = [SPar 2 2; SCall (Executed (VRScalar "c1")); SCall (RequestSentBy (SPeer "A")); SCall (Failed "f1");
           SCanon (CanonExecuted "k1"); SCall (Executed (VRStream "s" 0))] /\
  (match replay string String.eqb ex_fq (handler_from string (flatten string ex_fq) (flatten string ex_fp)) with
   | Ok h => result_trace string h
   | _ => []
   end) = [SPar 2 2; SCall (Executed (VRScalar "c1")); SCall (RequestSentBy (SPeer "B")); SCall (Failed "f1");
           SCanon (CanonExecuted "k1"); SCall (Executed (VRStream "s" 2))].
Proof. vm_compute. split; reflexivity. Qed.

Print Assumptions C08_source_tie.
Print Assumptions C08_call_join_comm.
Print Assumptions C08_call_join_comm_mod_sender_refuted.
Print Assumptions C08_call_join_comm_mod_sender_nostream.
Print Assumptions C08_call_join_assoc.
Print Assumptions C08_call_join_defined_iff.
Print Assumptions C08_call_join_lub.
Print Assumptions C08_call_join_congr.
Print Assumptions C08_canon_join_comm.
Print Assumptions C08_canon_join_assoc.
Print Assumptions C08_canon_join_defined_iff.
Print Assumptions C08_canon_join_lub.
Print Assumptions C08_ap_join_comm.
Print Assumptions C08_ap_join_assoc.
Print Assumptions C08_ap_join_comm_naive_refuted.
Print Assumptions C08_tjoin_comm.
Print Assumptions C08_tjoin_assoc.
Print Assumptions C08_replay_join_partial.
Print Assumptions C08_replay_comm_partial.
