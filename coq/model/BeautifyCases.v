(* BeautifyCases.v -- executable comparison functions used by the generated case files of C28.

   A case is what harness/src/bin/beautify.rs prints: the real parser's tree of a script, the indent
   step and the hopon switch the real Beautifier was run with, and the raw text it wrote (or BCrash
   when it panicked).  The text is split into lines HERE ([parse_lines]), not by the harness.

     check_case   the model (Beautify.beautify_ast) writes exactly the text the implementation wrote
     c28_oracle   the property evaluated on the implementation's text alone: the independent reader
                  gives back the flattening of the parsed script, every line sits at indentation
                  step * depth, and the instruction lines are the script's instructions in order
     hyp_case     the hypothesis of the theorems (texts_ok) holds for this script *)
From Aqua Require Import Base Air Beautify.
Open Scope list_scope.
Open Scope N_scope.

Record case_t := { c_tree : instr; c_step : N; c_hopon : bool; c_out : outcome }.

Definition outcome_eqb (a b : outcome) : bool :=
  match a, b with
  | BOk x, BOk y => String.eqb x y
  | BCrash, BCrash => true
  | _, _ => false
  end.

(* correspondence: model text = implementation text *)
Definition check_case (c : case_t) : bool :=
  outcome_eqb (beautify_ast (c_hopon c) (c_step c) (c_tree c)) (c_out c).

(* for replay files: the numbers (from 0) of the lines on which model and implementation differ *)
Definition line_eqb (a b : line) : bool := (l_indent a =? l_indent b) && String.eqb (l_text a) (l_text b).
Fixpoint diff_lines (i : N) (a b : list line) : list N :=
  match a, b with
  | [], [] => []
  | x :: xs, y :: ys => if line_eqb x y then diff_lines (N.succ i) xs ys else i :: diff_lines (N.succ i) xs ys
  | _, _ => [i]
  end.
Definition mismatch_lines (c : case_t) : option (list N) :=
  match c_out c with
  | BOk s =>
      match parse_lines s with
      | Some ls => Some (diff_lines 0 (beautify_walker (c_hopon c) (c_step c) (c_tree c) 0) ls)
      | None => None
      end
  | BCrash => None
  end.

(* ---- equality of structures ---- *)
Definition forest_eqb_with (eqb : tree -> tree -> bool) : list tree -> list tree -> bool :=
  fix go (l1 l2 : list tree) : bool :=
    match l1, l2 with
    | [], [] => true
    | x :: xs, y :: ys => eqb x y && go xs ys
    | _, _ => false
    end.
Fixpoint tree_eqb (a b : tree) {struct a} : bool :=
  match a, b with
  | TLeaf x, TLeaf y => String.eqb x y
  | TPar l r, TPar l' r' => forest_eqb_with tree_eqb l l' && forest_eqb_with tree_eqb r r'
  | TTry l r, TTry l' r' => forest_eqb_with tree_eqb l l' && forest_eqb_with tree_eqb r r'
  | TBlock h b, TBlock h' b' => String.eqb h h' && forest_eqb_with tree_eqb b b'
  | TBlockLast h b l, TBlockLast h' b' l' =>
      String.eqb h h' && forest_eqb_with tree_eqb b b' && forest_eqb_with tree_eqb l l'
  | _, _ => false
  end.
Definition forest_eqb : list tree -> list tree -> bool := forest_eqb_with tree_eqb.

(* the shape without the texts of the leaves (headers kept) *)
Fixpoint erase (t : tree) : tree :=
  match t with
  | TLeaf _ => TLeaf EmptyString
  | TPar l r => TPar (map erase l) (map erase r)
  | TTry l r => TTry (map erase l) (map erase r)
  | TBlock h b => TBlock h (map erase b)
  | TBlockLast h b l => TBlockLast h (map erase b) (map erase l)
  end.

(* Section 1 of Beautify.v (the Display of call operands) is still the Display the real AST uses:
   the model's rendering of every call in AST format equals the [text] the harness took from the real
   Display.  When this is false the call lines are compared by shape only, so that a change of the
   AST's Display alone can never be reported as a violation of C28 (it shows as a correspondence
   mismatch instead). *)
Fixpoint calls_display_ok (t : instr) : bool :=
  let o := fun (l : option instr) => match l with Some x => calls_display_ok x | None => true end in
  match t with
  | ICall text tr args out => String.eqb (display_call tr args out) text
  | ISeq a b | IPar a b | IXor a b => calls_display_ok a && calls_display_ok b
  | IMatch _ _ _ b | IMisMatch _ _ _ b | INew _ _ b _ => calls_display_ok b
  | IFoldScalar _ _ _ b l _ | IFoldStream _ _ _ b l _ | IFoldStreamMap _ _ _ b l _ => calls_display_ok b && o l
  | _ => true
  end.

(* ---- C28 oracle on the implementation's text only ---- *)
Definition c28_oracle (c : case_t) : bool :=
  match c_out c with
  | BCrash => false
  | BOk s =>
      match parse_lines s with
      | None => false
      | Some ls =>
          let want := flatten (c_hopon c) (c_tree c) in
          let strict := calls_display_ok (c_tree c) in
          let norm := fun ts : list tree => if strict then ts else map erase ts in
          (* the beautified text read back by the independent reader = the parsed script, sequences flattened *)
          match read_lines ls with
          | Some got => forest_eqb (norm got) (norm want)
          | None => false
          end
          (* every line at an indentation equal to step * nesting depth *)
          && forallb (indents_ok (c_step c) 0) (gforest ls)
          (* every instruction once, in script order, at step * depth *)
          && (let got := instruction_lines ls in
              let exp := map (fun p => (c_step c * fst p, snd p)) (listing 0 want) in
              if strict then list_eqb (pair_eqb N.eqb String.eqb) got exp
              else list_eqb N.eqb (map fst got) (map fst exp))
      end
  end.

(* the hypothesis of the theorems, evaluated on the script of the case *)
Definition hyp_case (c : case_t) : bool := texts_ok (c_hopon c) (c_tree c).
Definition display_case (c : case_t) : bool := calls_display_ok (c_tree c).
