"""Translator piece for C17 (security tetraplets): the decisive source lines of

  marine-call-parameters (the version /repo/Cargo.lock pins)      SecurityTetraplet::literal_tetraplet / add_lens
  crates/air-lib/polyplets/src/triplet.rs                         From<ResolvedTriplet> for SecurityTetraplet
  air/src/execution_step/value_types/utils.rs                     populate_tetraplet_with_lambda
  crates/air-lib/lambda/ast/src/ast/traits.rs                     Display of LambdaAST / ValueAccessor / Functor
  air/src/execution_step/value_types/iterable/*.rs                the lens of a fold step, the tetraplet of an element
  air/src/execution_step/resolver/resolvable_impl.rs              resolve_const / resolve_errors
  air/src/execution_step/value_types/jvaluable/canon_stream.rs    as_tetraplets / apply_lambda_with_tetraplets
  air/src/execution_step/instructions/call/resolved_call.rs       the call's tetraplet, the request
  air/src/execution_step/instructions/call/call_result_setter.rs  the aggregate stored with the call's tetraplet
  air/src/execution_step/instructions/call/verifier.rs            verify_call

as Coq constants.  model/TetraSpec.v compares them with what the executor model does ([c17_source_agrees],
theorem C17_source_tie): a literal tetraplet built from another peer, a changed lens format, a lens that is no
longer appended, a request built from other fields, a dropped verify_call or a new place that builds tetraplets
breaks the obligation."""
import glob
import os
import re

import gen_model
from gen_model import TranslationError, coq_list, coq_str, read, strip_comments

POLY = "crates/air-lib/polyplets/src/triplet.rs"
POLY_TOML = "crates/air-lib/polyplets/Cargo.toml"
UTILS = "air/src/execution_step/value_types/utils.rs"
TRAITS = "crates/air-lib/lambda/ast/src/ast/traits.rs"
ITER_DIR = "air/src/execution_step/value_types/iterable"
RESOLVER = "air/src/execution_step/resolver/resolvable_impl.rs"
JV_CANON = "air/src/execution_step/value_types/jvaluable/canon_stream.rs"
RESOLVED = "air/src/execution_step/instructions/call/resolved_call.rs"
SETTER = "air/src/execution_step/instructions/call/call_result_setter.rs"
VERIFIER = "air/src/execution_step/instructions/call/verifier.rs"


def norm(s):
    return re.sub(r"\s+", " ", s).strip()


def block_after(src, start, what):
    """text between the braces of the first `{` at or after `start`"""
    i = src.find("{", start)
    if i < 0:
        raise TranslationError("C17: no block after %s" % what)
    depth, j = 1, i + 1
    while j < len(src) and depth > 0:
        depth += {"{": 1, "}": -1}.get(src[j], 0)
        j += 1
    return src[i + 1:j - 1]


def fn_body(src, name, rel):
    m = re.search(r"\bfn\s+" + re.escape(name) + r"\b", src)
    if not m:
        raise TranslationError("C17: fn %s not found in %s" % (name, rel))
    # skip the parameter list
    i, depth = src.index("(", m.end()), 0
    while True:
        depth += {"(": 1, ")": -1}.get(src[i], 0)
        i += 1
        if depth == 0:
            break
    return block_after(src, i, "fn " + name)


def struct_fields(block, what):
    """`name: expr,` pairs of a struct literal"""
    out, depth, cur = [], 0, ""
    for c in block:
        if c in "({[":
            depth += 1
        elif c in ")}]":
            depth -= 1
        if c == "," and depth == 0:
            out.append(cur)
            cur = ""
        else:
            cur += c
    if norm(cur):
        out.append(cur)
    fields = []
    for f in out:
        f = norm(f)
        if not f:
            continue
        if ":" not in f:
            raise TranslationError("C17: %s: shorthand field %r" % (what, f))
        k, v = f.split(":", 1)
        fields.append((norm(k), norm(v)))
    return fields


def match_arms(body, what):
    """top-level `pattern => body` arms of the first match in `body`"""
    m = re.search(r"\bmatch\s+[^{]+\{", body)
    if not m:
        raise TranslationError("C17: no match in %s" % what)
    blk = block_after(body, m.end() - 1, what)
    arms, depth, cur = [], 0, ""
    i = 0
    while i < len(blk):
        c = blk[i]
        if c in "({[":
            depth += 1
        elif c in ")}]":
            depth -= 1
        cur += c
        i += 1
        if depth == 0 and (c == "," or (c == "}" and "=>" in cur)):
            if "=>" in cur:
                arms.append(cur)
            cur = ""
    if "=>" in cur:
        arms.append(cur)
    out = []
    for a in arms:
        p, b = a.split("=>", 1)
        b = norm(b).rstrip(",").strip()
        if b.startswith("{") and b.endswith("}"):
            b = norm(b[1:-1])
        out.append((norm(p), b))
    return out


def marine_source():
    toml = read(POLY_TOML)
    m = re.search(r'marine-call-parameters\s*=\s*\{\s*version\s*=\s*"([^"]+)"', toml)
    if not m:
        raise TranslationError("C17: marine-call-parameters version not found in " + POLY_TOML)
    want = m.group(1)
    lock = read("Cargo.lock")
    vers = re.findall(r'name = "marine-call-parameters"\nversion = "([^"]+)"', lock)
    pick = [v for v in vers if v == want] or [v for v in vers if v.startswith(want.rsplit(".", 1)[0])]
    if not pick:
        raise TranslationError("C17: Cargo.lock has no marine-call-parameters %s" % want)
    home = os.environ.get("CARGO_HOME", os.path.expanduser("~/.cargo"))
    cands = sorted(glob.glob(os.path.join(home, "registry", "src", "*", "marine-call-parameters-%s" % pick[0], "src", "lib.rs")))
    if not cands:
        raise TranslationError("C17: the source of marine-call-parameters %s is not in the cargo registry" % pick[0])
    with open(cands[0], encoding="utf-8") as f:
        return strip_comments(f.read())


def literal_tetraplet():
    src = marine_source()
    body = fn_body(src, "literal_tetraplet", "marine-call-parameters")
    m = re.search(r"\bSelf\s*\{", body)
    if not m:
        raise TranslationError("C17: literal_tetraplet does not build Self { .. }")
    fields = struct_fields(block_after(body, m.start(), "literal_tetraplet"), "literal_tetraplet")
    add = norm(fn_body(src, "add_lens", "marine-call-parameters")).rstrip(";")
    return fields, add


def triplet_to_tetraplet():
    src = strip_comments(read(POLY))
    m = re.search(r"impl\s+From<ResolvedTriplet>\s+for\s+SecurityTetraplet", src)
    if not m:
        raise TranslationError("C17: impl From<ResolvedTriplet> for SecurityTetraplet not found")
    body = fn_body(src[m.end():], "from", POLY)
    m2 = re.search(r"\bSelf\s*\{", body)
    if not m2:
        raise TranslationError("C17: From<ResolvedTriplet>::from does not build Self { .. }")
    return struct_fields(block_after(body, m2.start(), "From<ResolvedTriplet>"), "From<ResolvedTriplet>")


def populate_arms():
    src = strip_comments(read(UTILS))
    body = fn_body(src, "populate_tetraplet_with_lambda", UTILS)
    return match_arms(body, "populate_tetraplet_with_lambda")


def display_arms(src, ty):
    m = re.search(r"impl\s+fmt::Display\s+for\s+" + re.escape(ty) + r"\s*\{", src)
    if not m:
        raise TranslationError("C17: Display for %s not found" % ty)
    body = fn_body(src[m.end():], "fmt", TRAITS)
    out, join = [], None
    for p, b in match_arms(body, "Display for " + ty):
        w = re.fullmatch(r'write!\(f,\s*"((?:[^"\\]|\\.)*)"\s*(?:,\s*(.*))?\)', b)
        if not w:
            raise TranslationError("C17: Display for %s: arm %r not recognised" % (ty, b))
        out.append((p, w.group(1)))
        if w.group(2) and "join(" in w.group(2):
            j = re.search(r'\.iter\(\)\.join\("((?:[^"\\]|\\.)*)"\)', w.group(2))
            if not j:
                raise TranslationError("C17: Display for %s: join not recognised" % ty)
            join = j.group(1)
    return out, join


def iterable_lenses():
    out, elems = [], []
    root = os.path.join(gen_model.REPO, ITER_DIR)
    for f in sorted(os.listdir(root)):
        if not f.endswith(".rs"):
            continue
        rel = ITER_DIR + "/" + f
        src = strip_comments(read(rel))
        for m in re.finditer(r'add_lens\(\s*&format!\(\s*"((?:[^"\\]|\\.)*)"\s*,\s*([^)]*)\)\s*\)', src):
            out.append((rel, m.group(1) + "|" + norm(m.group(2))))
        if "add_lens" in src and not re.search(r'add_lens\(\s*&format!', src):
            raise TranslationError("C17: %s calls add_lens in an unrecognised way" % rel)
        if "add_lens" not in src:
            peek = fn_body(src, "peek", rel)
            m = re.search(r"IterableItem::R\w+Value\(\(\s*([^,]+),\s*([^,]+),", peek)
            if not m:
                raise TranslationError("C17: %s: the item built by peek not recognised" % rel)
            expr = norm(m.group(2))
            if expr == "tetraplet":
                d = re.search(r"let\s*\(\s*result\s*,\s*tetraplet\s*,\s*trace_pos\s*\)\s*=\s*(.+?);", peek)
                if not d:
                    raise TranslationError("C17: %s: origin of `tetraplet` in peek not recognised" % rel)
                expr = norm(d.group(1))
            elems.append((rel, expr))
    return out, elems


def resolver_lines():
    src = strip_comments(read(RESOLVER))
    rc = fn_body(src, "resolve_const", RESOLVER)
    m = re.search(r"let\s+tetraplet\s*=\s*(SecurityTetraplet::[^;]+);", rc)
    if not m:
        raise TranslationError("C17: resolve_const: the tetraplet not recognised")
    re_ = fn_body(src, "resolve_errors", RESOLVER)
    arms = dict(match_arms(re_[re_.index("let tetraplets"):], "resolve_errors/tetraplets"))
    if norm(arms.get("Some(tetraplet)", "")) != "vec![tetraplet.clone()]":
        raise TranslationError("C17: resolve_errors: the Some(tetraplet) arm changed")
    n = re.search(r"let\s+tetraplet\s*=\s*(SecurityTetraplet::[^;]+);", arms.get("None", ""))
    if not n:
        raise TranslationError("C17: resolve_errors: the None arm not recognised")
    if "populate_tetraplet_with_lambda" in re_ or "add_lens" in re_:
        raise TranslationError("C17: resolve_errors now records the lens (the finding error-object-lens-dropped is fixed: update TetraSpec.v)")
    return norm(m.group(1)), norm(n.group(1))


def canon_lines():
    src = strip_comments(read(JV_CANON))
    at = norm(fn_body(src, "as_tetraplets", JV_CANON))
    body = fn_body(src, "apply_lambda_with_tetraplets", JV_CANON)
    arms = dict(match_arms(body[body.index("let (tetraplet, provenance)"):], "canon apply_lambda_with_tetraplets"))
    some = arms.get("Some(idx)")
    none = arms.get("None")
    if some is None or none is None:
        raise TranslationError("C17: canon_stream.rs: the arms of tetraplet_idx not recognised")
    ms = re.search(r"\(\s*(resolved_call\.[^,]+),", some)
    mn = re.search(r"SecurityTetraplet::new\((.*?)\)\s*,\s*root_provenance", none, flags=re.S)
    if not ms or not mn:
        raise TranslationError("C17: canon_stream.rs: the tetraplets of the two arms not recognised")
    args, depth, cur = [], 0, ""
    for c in mn.group(1):
        if c in "(":
            depth += 1
        elif c in ")":
            depth -= 1
        if c == "," and depth == 0:
            args.append(norm(cur))
            cur = ""
        else:
            cur += c
    if norm(cur):
        args.append(norm(cur))
    return at, norm(ms.group(1)), args


def resolved_call_lines():
    src = strip_comments(read(RESOLVED))
    k = src.find("impl<'i> ResolvedCall<'i>")
    if k < 0:
        raise TranslationError("C17: impl ResolvedCall not found")
    new = fn_body(src[k:], "new", RESOLVED)
    if not re.search(r"let\s+triplet\s*=\s*resolve\(&raw_call\.triplet,\s*exec_ctx\)\?;", new):
        raise TranslationError("C17: ResolvedCall::new no longer resolves raw_call.triplet")
    m = re.search(r"let\s+tetraplet\s*=\s*(triplet\.into\(\)|SecurityTetraplet::from\(triplet\));", new)
    if not m:
        raise TranslationError("C17: ResolvedCall::new: the tetraplet is not built from the resolved triplet")
    prep = fn_body(src, "prepare_request_params", RESOLVED)
    m2 = re.search(r"CallRequestParams::new\((.*?)\);", prep, flags=re.S)
    if not m2:
        raise TranslationError("C17: CallRequestParams::new not found")
    fields = [norm(a) for a in m2.group(1).split(",") if norm(a)]
    if not re.search(r"call_arguments,\s*tetraplets,?\s*\}\s*=\s*self\.resolve_args\(exec_ctx\)\?", prep):
        raise TranslationError("C17: prepare_request_params: arguments / tetraplets no longer come from resolve_args")
    if not re.search(r"TetrapletsRepr\s*\.serialize\(&tetraplets\)", prep):
        raise TranslationError("C17: the request's tetraplets are not the resolved tetraplets")
    col = fn_body(src, "collect_args", RESOLVED)
    if not re.search(r"let\s*\(arg,\s*tetraplet,\s*_\)\s*=\s*\w+\.resolve\(exec_ctx\)\?;", col) or \
       not re.search(r"tetraplets\.push\(tetraplet\)", col):
        raise TranslationError("C17: collect_args: shape changed")
    return "triplet.into()", ["call_arguments" if f == "call_arguments" else f for f in fields]


def setter_lines():
    src = strip_comments(read(SETTER))
    data = fn_body(src, "populate_context_from_data", SETTER)
    aggs = [norm(m.group(0)) for m in re.finditer(r"ServiceResultAggregate::new\([^)]*\)", data)]
    verifies = len(re.findall(r"verifier::verify_call\(\s*argument_hash,\s*&tetraplet,\s*&service_result_aggregate\.argument_hash,\s*&current_tetraplet,?\s*\)\?", data))
    # every aggregate of populate_context_from_data is built after a verify_call
    for m in re.finditer(r"ServiceResultAggregate::new\(", data):
        if "verify_call" not in data[max(0, m.start() - 400):m.start()]:
            raise TranslationError("C17: populate_context_from_data builds an aggregate without verify_call before it")
    local = fn_body(src, "populate_context_from_peer_service_result", SETTER)
    tracks = [norm(m.group(1)) for m in re.finditer(r"\.track_service_result\(([^)]*\))?[^)]*\)", local)]
    tr = [norm(m.group(0)) for m in re.finditer(r"track_service_result\(executed_result\.result\.clone\(\),\s*tetraplet,\s*argument_hash\)", local)]
    return aggs, verifies, tr


def verifier_line():
    src = strip_comments(read(VERIFIER))
    body = fn_body(src, "verify_call", VERIFIER)
    m = re.search(r"if\s+(expected_tetraplet\s*!=\s*[^{]+?)\s*\{\s*return\s+Err", body)
    if not m:
        raise TranslationError("C17: verify_call: the tetraplet comparison not recognised")
    return norm(m.group(1))


def construction_sites():
    """every place of air/src (tests excluded) that builds or extends a tetraplet"""
    sites = []
    root = os.path.join(gen_model.REPO, "air/src")
    for dp, dn, fn in sorted(os.walk(root)):
        dn.sort()
        for f in sorted(fn):
            if not f.endswith(".rs"):
                continue
            rel = os.path.relpath(os.path.join(dp, f), gen_model.REPO)
            src = strip_comments(read(rel))
            cut = src.find("#[cfg(test)]")
            if cut >= 0:
                src = src[:cut]
            for kind, pat in (("add_lens", r"\.add_lens\("), ("literal_tetraplet", r"SecurityTetraplet::literal_tetraplet\("),
                              ("new", r"SecurityTetraplet::new\("), ("struct", r"SecurityTetraplet\s*\{\s*peer_pk\b")):
                n = len(re.findall(pat, src))
                if n:
                    sites.append((rel, "%s x%d" % (kind, n)))
    return sites


def pairs(ps):
    return coq_list(["(%s, %s)" % (coq_str(a), coq_str(b)) for a, b in ps])


def generate():
    lines = ["(* --- tools/genx_tetra.py: security tetraplets (C17) --- *)"]
    fields, add = literal_tetraplet()
    lines.append("Definition c17_literal_tetraplet_fields : list (string * string) := %s." % pairs(fields))
    lines.append("Definition c17_add_lens_body : string := %s." % coq_str(add))
    lines.append("Definition c17_triplet_to_tetraplet_fields : list (string * string) := %s." % pairs(triplet_to_tetraplet()))
    lines.append("Definition c17_populate_arms : list (string * string) := %s." % pairs(populate_arms()))
    traits = strip_comments(read(TRAITS))
    lam, join = display_arms(traits, "LambdaAST<'_>")
    if join is None:
        raise TranslationError("C17: Display for LambdaAST: the accessors are no longer joined")
    lines.append("Definition c17_lambda_display : list (string * string) := %s." % pairs(lam))
    lines.append("Definition c17_lambda_join : string := %s." % coq_str(join))
    acc, _ = display_arms(traits, "ValueAccessor<'_>")
    lines.append("Definition c17_accessor_display : list (string * string) := %s." % pairs(acc))
    fun, _ = display_arms(traits, "Functor")
    if len(fun) != 1 or fun[0][0] != "Length":
        raise TranslationError("C17: Display for Functor: not the single arm Length")
    lines.append("Definition c17_functor_length_display : string := %s." % coq_str(fun[0][1]))
    lens, elems = iterable_lenses()
    lines.append("Definition c17_iterable_lens_formats : list (string * string) := %s." % pairs(lens))
    lines.append("Definition c17_element_iterables_tetraplet : list (string * string) := %s." % pairs(elems))
    rc, rn = resolver_lines()
    lines.append("Definition c17_resolve_const_tetraplet : string := %s." % coq_str(rc))
    lines.append("Definition c17_resolve_errors_none_tetraplet : string := %s." % coq_str(rn))
    at, some, none = canon_lines()
    lines.append("Definition c17_canon_as_tetraplets : string := %s." % coq_str(at))
    lines.append("Definition c17_canon_lens_some_arm : string := %s." % coq_str(some))
    lines.append("Definition c17_canon_lens_none_arm : list string := %s." % coq_list([coq_str(a) for a in none]))
    tet, fields = resolved_call_lines()
    lines.append("Definition c17_resolved_call_tetraplet : string := %s." % coq_str(tet))
    lines.append("Definition c17_request_fields : list string := %s." % coq_list([coq_str(f) for f in fields]))
    aggs, verifies, tr = setter_lines()
    lines.append("Definition c17_setter_data_aggregates : list string := %s." % coq_list([coq_str(a) for a in aggs]))
    lines.append("Definition c17_setter_verify_calls : N := %d." % verifies)
    lines.append("Definition c17_setter_local_tracks : list string := %s." % coq_list([coq_str(a) for a in tr]))
    lines.append("Definition c17_verify_call_tetraplet_test : string := %s." % coq_str(verifier_line()))
    lines.append("Definition c17_tetraplet_construction_sites : list (string * string) := %s." % pairs(construction_sites()))
    lines.append("")
    return lines


if __name__ == "__main__":
    print("\n".join(generate()))
