(* WfExecCases.v -- the C10 oracle on the cases of the `exec` driver (ExecCases.case_t). *)
From Aqua Require Import Base Json Air Trace Handler Values Scalars Lens Exec RunExec ExecCases WfTrace.
Open Scope N_scope.
Open Scope list_scope.

Definition produced_trace (c : ExecCases.case_t) : option (list (state cid)) :=
  if eo_kind (ec_obs c) =? 0 then Some (eo_trace (ec_obs c)) else None.
Definition oracle_wf (c : ExecCases.case_t) : bool :=
  match produced_trace c with Some t => wf_trace_b cid t | None => true end.
