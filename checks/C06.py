"""C06 -- call request ids are fresh and results reach the call that requested them.

Histories go through two drivers: `ids06` (own driver: one or several peers, every service result carries
the id of the request it answers, results are handed back in arbitrary subsets together with results under
stale and never-issued ids and with new current data) and `exec` (the shared history driver, generated
multi-peer histories with its per-peer id ledger).  Every probed run is also given to the executor model
(ExecCases.check_case, lock-step) and to the Coq-side oracle IdsCases.c06_oracle."""
import airgen
import exec_common
import ids_common

PID = "C06"
MODEL_TARGETS = ["model/IdsCases.vo"]
HARNESS_BINS = ["ids06", "exec"]
RULE = ("a case is one history (script, peers, schedule) of one particle; evaluations = runs of the real execute_air; "
        "ids06 histories: (a) one peer, scripts '(seq (par c1..cw) (seq d1 (seq d2 ..)))' with w calls pending at once and a chain of "
        "dependent calls, optionally a scalar fold with calls, failing calls under xor (quick: w<=10, chains<=12, thorough: w<=60, chains<=90, "
        "up to 210 runs on the peer), (b) airgen scripts on 1 and 3 peers (seq/par/xor/folds/streams/canon/new, depth 3-5) with call sites "
        "renamed to unique function names and fold iterators appended to the arguments; schedules: results for random subsets of the pending ids "
        "(one, a few, all), in about half of the runs also results under ids answered earlier (stale, with a different value) and under ids "
        "never issued (next ids, ids near 4e9), idle runs, delivery / duplication / re-delivery of particles, results together with new current "
        "data; exec histories: airgen scripts on 3 peers with the default schedules; distinct = distinct (script, schedule) with at least one "
        "service invocation")
PARTIAL = [
    "C06_unknown_full (leftover results are ALWAYS reported) is REFUTED by the model and by the code: a run that ends with an uncaught "
    "catchable error reports that error's code and drops the leftovers (C06_unknown_refuted; known finding "
    "unprocessed-results-dropped-on-catchable-error); proved: C06_unknown / C06_unknown_partial for runs whose execution succeeds",
    "routing is proved per call (C06_routing_call: a result is taken only under the id of the met state RequestSentBy(me,id)) and per "
    "instruction (C06_routing_exec: entries are only removed); that the met state comes from the previous/current data at the call's own "
    "position is the trace handler's business (C07-C10) and is sampled here through the tagged results",
    "theorems about exec/run are stated for every stream hook satisfying hook_preserves R (CallSpec.v) and every finish function "
    "satisfying finish_keeps_ids; the stage-1 instances satisfy them (C06_ex_params)",
    "the u32 overflow of last_call_request_id (+= 1 unchecked) is an explicit crash outcome of the model; not exhibitable (needs 2^32 requests)",
]
ASSUMPTIONS = [
    "the host contract of air/README.md: the host stores the returned data as the next previous data and keeps the previous data when a run fails",
    "call results reach the interpreter as a map (one result per id): 'duplicated ids' are the same id supplied again in a later run",
]
KNOWN = {"unprocessed-results-dropped-on-catchable-error"}
CHECKS = {"model": "check_case", "oracle_c06": "c06_oracle", "count_unknown": "has_unknown"}


def gen_cases(rng, tier, escalate=False):
    mult = 4 if escalate else 1
    q = tier == "quick"
    cases = []
    for _ in range((10 if q else 60) * mult):
        cases.append(ids_common.sequence_case(rng, tier, ["C06"]))
    for _ in range((2 if q else 16) * mult):
        cases.append(ids_common.sequence_case(rng, tier, ["C06"], long=True, probe_max=3))
    for _ in range((8 if q else 80) * mult):
        cases.append(ids_common.generated_case(rng, tier, ["C06"], peers=1, streams=rng.random() < 0.4, p_extra=0.6))
    for _ in range((12 if q else 120) * mult):
        cases.append(ids_common.generated_case(rng, tier, ["C06"], peers=3, streams=rng.random() < 0.5))
    for _ in range((4 if q else 60) * mult):
        prof = airgen.Profile(peers=3, depth=rng.choice([3, 4, 5]), streams=rng.random() < 0.5)
        c = exec_common.history_case(rng, prof, oracles=["C06"])
        c["driver"] = "exec"
        c["probe_steps"] = sorted(rng.sample(range(0, 30), 5 if q else 6))
        cases.append(c)
    return cases


def evaluate(cases, result, tier):
    own = [c for c in cases if c.get("driver") != "exec"]
    shared = [c for c in cases if c.get("driver") == "exec"]
    ids_common.evaluate(own, result, CHECKS, tag="C06", known_keys=KNOWN, property_id="C06")
    if shared:
        saved = exec_common.HEADER
        exec_common.HEADER = ids_common.HEADER
        try:
            exec_common.evaluate(shared, result, {"model": "check_case", "oracle_c06": "c06_oracle"},
                                 oracle_key=lambda f: f.get("key") if f.get("key") in KNOWN else None, tag="C06x", shard_size=8)
        finally:
            exec_common.HEADER = saved
        # "30000 although every supplied id was pending" (oracles.rs c06) is not a violation of C06's text -- the leftover IS
        # reported; it means a pending call was not reached again (C05's business: e.g. the stream fold cursor hole)
        kept = []
        for f in result["oracle_fail"]:
            if isinstance(f.get("detail"), dict) and f["detail"].get("key") == "spurious-30000":
                result["distribution"]["30000 with only pending ids supplied (exec driver)"] = \
                    result["distribution"].get("30000 with only pending ids supplied (exec driver)", 0) + 1
            else:
                kept.append(f)
        result["oracle_fail"][:] = kept
