(* Proofs about model/Stream.v (C12, C13): exact contents of a stream, iteration order, compactify
   (dense, order preserving renumbering; the update list), the recursive cursor (every value handed out
   exactly once under [cursor_hyp]; refutation witnesses without it; termination from STREAM_MAX_SIZE),
   Streams::add_stream_value/get, and the tie between the sparse matrix and the padded vector. *)
From Coq Require Import Lia Permutation Sorted.
From Aqua Require Import Base Stream.
Open Scope N_scope.

(* ---------- N-indexed list helpers ---------- *)
Lemma lenN_nil {A} : lenN (@nil A) = 0. Proof. reflexivity. Qed.
Lemma lenN_cons {A} (x : A) l : lenN (x :: l) = lenN l + 1.
Proof. unfold lenN. cbn [length]. lia. Qed.
Lemma lenN_app {A} (l1 l2 : list A) : lenN (l1 ++ l2) = lenN l1 + lenN l2.
Proof. unfold lenN. rewrite app_length. lia. Qed.
Lemma lenN_map {A B} (f : A -> B) l : lenN (map f l) = lenN l.
Proof. unfold lenN. now rewrite map_length. Qed.
Lemma lenN_0 {A} (l : list A) : lenN l = 0 -> l = [].
Proof. destruct l; [reflexivity|]. rewrite lenN_cons. lia. Qed.

Lemma skipN_0 {A} (l : list A) : skipN 0 l = l.
Proof. destruct l; reflexivity. Qed.
Lemma skipN_app_exact {A} (lo hi : list A) k : lenN lo = k -> skipN k (lo ++ hi) = hi.
Proof.
  revert k. induction lo as [|x lo IH]; intros k Hk.
  - rewrite lenN_nil in Hk. subst k. apply skipN_0.
  - rewrite lenN_cons in Hk. cbn [app skipN].
    destruct (N.eqb_spec k 0) as [E|E]; [lia|]. apply IH. lia.
Qed.
Lemma skipN_all {A} (l : list A) k : lenN l <= k -> skipN k l = [].
Proof.
  revert k. induction l as [|x l IH]; intros k Hk; [reflexivity|].
  rewrite lenN_cons in Hk. cbn [skipN]. destruct (N.eqb_spec k 0) as [E|E]; [lia|]. apply IH. lia.
Qed.
Lemma is_nil_true {A} (l : list A) : is_nil l = true <-> l = [].
Proof. destruct l; cbn; split; congruence. Qed.
Lemma is_nil_false {A} (l : list A) : is_nil l = false <-> l <> [].
Proof. destruct l; cbn; split; congruence. Qed.
Lemma concat_filter_nonempty {A} (l : list (list A)) :
  concat (filter (fun r => negb (is_nil r)) l) = concat l.
Proof.
  induction l as [|r l IH]; [reflexivity|]. cbn [filter]. destruct r; cbn [is_nil negb concat app]; [exact IH|].
  now rewrite IH.
Qed.

Section Exact.
  Variable V : Type.
  Notation cells := (cells V).
  Notation matrix := (matrix V).
  Notation stream := (stream V).

  (* ---------- sres inversion ---------- *)
  Lemma sbind_ok {A B} (r : sres A) (f : A -> sres B) b :
    sbind r f = SOk b -> exists a, r = SOk a /\ f a = SOk b.
  Proof. destruct r as [a| |]; cbn; try discriminate. intros Hf. exists a. auto. Qed.
  Lemma gen_idx_ok n m : gen_idx_from_usize n = SOk m -> m = n /\ n <= gen_u32_max.
  Proof. unfold gen_idx_from_usize. destruct (N.leb_spec n gen_u32_max) as [L|L]; [|discriminate]. intros H; inversion H; subst; split; [reflexivity|assumption]. Qed.

  (* ---------- cells: basic invariants ---------- *)
  Definition rows_nonempty (c : cells) : Prop := forall j r, In (j, r) c -> r <> [].
  Definition wfl (m : matrix) : Prop := rows_nonempty (m_cells m) /\ cells_below V (m_cells m) (m_len m).

  Lemma cells_sorted_weaken lo lo' (c : cells) : lo' <= lo -> cells_sorted V lo c -> cells_sorted V lo' c.
  Proof. destruct c as [|[j r] t]; cbn; [auto|]. intros L (H1 & H2 & H3). repeat split; auto; lia. Qed.
  Lemma cells_sorted_nonempty lo (c : cells) : cells_sorted V lo c -> rows_nonempty c.
  Proof.
    revert lo. induction c as [|[j r] t IH]; intros lo H j' r' HIn; [destruct HIn|].
    cbn in H. destruct H as (H1 & H2 & H3). destruct HIn as [E|HIn]; [inversion E; subst; auto|]. eapply IH; eauto.
  Qed.
  Lemma cells_sorted_ge lo (c : cells) : cells_sorted V lo c -> forall j r, In (j, r) c -> lo <= j.
  Proof.
    revert lo. induction c as [|[j r] t IH]; intros lo H j' r' HIn; [destruct HIn|].
    cbn in H. destruct H as (H1 & H2 & H3). destruct HIn as [E|HIn]; [inversion E; subst; auto|].
    specialize (IH _ H3 _ _ HIn). lia.
  Qed.
  Lemma wf_matrix_wfl m : wf_matrix V m -> wfl m.
  Proof. intros (S & B & _). split; auto. eapply cells_sorted_nonempty; eauto. Qed.

  Lemma cells_add_sorted lo (c : cells) g v : cells_sorted V lo c -> lo <= g -> cells_sorted V lo (cells_add V c g v).
  Proof.
    revert lo. induction c as [|[j r] t IH]; intros lo H L; cbn [cells_add].
    - cbn. split; [exact L|]. split; [discriminate|exact I].
    - cbn [cells_sorted] in H. destruct H as (H1 & H2 & H3).
      destruct (N.ltb_spec g j) as [Lt|Ge].
      + cbn [cells_sorted]. split; [exact L|]. split; [discriminate|]. split; [lia|]. split; assumption.
      + destruct (N.eqb_spec g j) as [E|NE].
        * cbn [cells_sorted]. split; [exact H1|]. split; [destruct r; discriminate|exact H3].
        * cbn [cells_sorted]. split; [exact H1|]. split; [exact H2|]. apply IH; [exact H3|lia].
  Qed.
  Lemma cells_add_in (c : cells) g v j r : In (j, r) (cells_add V c g v) ->
    (j = g) \/ In (j, r) c.
  Proof.
    induction c as [|[j0 r0] t IH]; cbn [cells_add].
    - intros [E|[]]. inversion E; auto.
    - destruct (N.ltb_spec g j0).
      + intros [E|H']; [inversion E; auto|auto].
      + destruct (N.eqb_spec g j0).
        * intros [E|H']; [inversion E; subst; auto|right; right; auto].
        * intros [E|H']; [right; left; auto|]. destruct (IH H'); auto. right; right; auto.
  Qed.
  Lemma cells_add_nonempty (c : cells) g v : rows_nonempty c -> rows_nonempty (cells_add V c g v).
  Proof.
    induction c as [|[j0 r0] t IH]; intros Hn; cbn [cells_add].
    - intros j r [E|[]]. inversion E. discriminate.
    - destruct (N.ltb_spec g j0).
      + intros j r [E|H']; [inversion E; discriminate|eapply Hn; eauto].
      + destruct (N.eqb_spec g j0).
        * intros j r [E|H']; [inversion E; destruct r0; discriminate|eapply Hn; right; eauto].
        * intros j r [E|H']; [eapply Hn; left; eauto|]. eapply IH; eauto. intros j' r' H''. eapply Hn; right; eauto.
  Qed.
  Lemma cells_add_perm (c : cells) g v :
    Permutation (concat (map snd (cells_add V c g v))) (v :: concat (map snd c)).
  Proof.
    induction c as [|[j r] t IH]; cbn [cells_add].
    - cbn. auto.
    - destruct (N.ltb_spec g j); [cbn; auto|].
      destruct (N.eqb_spec g j).
      + cbn [map snd concat]. rewrite <- app_assoc. cbn [app].
        apply Permutation_sym. apply Permutation_middle.
      + cbn [map snd concat]. eapply Permutation_trans; [apply Permutation_app_head; exact IH|].
        apply Permutation_sym. apply Permutation_middle.
  Qed.
  Lemma cells_add_length (c : cells) g v :
    lenN (concat (map snd (cells_add V c g v))) = lenN (concat (map snd c)) + 1.
  Proof. unfold lenN. rewrite (Permutation_length (cells_add_perm c g v)). cbn [length]. lia. Qed.

  (* ---------- add_value_to_generation ---------- *)
  Lemma add_gen_spec (m m1 : matrix) v g : add_value_to_generation V m v g = SOk m1 ->
    m_cells m1 = cells_add V (m_cells m) g v /\ m_size m1 = m_size m + 1 /\
    m_len m1 = N.max (m_len m) (g + 1) /\ g < gen_u32_max \/
    m_cells m1 = cells_add V (m_cells m) g v /\ m_size m1 = m_size m + 1 /\ m_len m1 = m_len m /\ g < m_len m.
  Proof.
    unfold add_value_to_generation. destruct (N.leb_spec (m_len m) g) as [L|L].
    - destruct (N.leb_spec gen_u32_max g) as [L'|L']; [discriminate|]. intros H; inversion H; subst; cbn. left. repeat split; auto. lia.
    - intros H; inversion H; subst; cbn. right. auto.
  Qed.
  Lemma add_gen_cells (m m1 : matrix) v g : add_value_to_generation V m v g = SOk m1 ->
    m_cells m1 = cells_add V (m_cells m) g v /\ m_size m1 = m_size m + 1 /\ g < m_len m1 /\ m_len m <= m_len m1.
  Proof. intros H. destruct (add_gen_spec _ _ _ _ H) as [(A & B & C & D)|(A & B & C & D)]; repeat split; auto; lia. Qed.

  Lemma add_gen_wf (m m1 : matrix) v g : wf_matrix V m -> add_value_to_generation V m v g = SOk m1 -> wf_matrix V m1.
  Proof.
    intros (S & B & Z) H. destruct (add_gen_cells _ _ _ _ H) as (C & Sz & L1 & L2).
    unfold wf_matrix, matrix_iter. rewrite C, Sz. repeat split.
    - apply cells_add_sorted; auto. lia.
    - intros j r HIn. destruct (cells_add_in _ _ _ _ _ HIn) as [E|HIn']; [subst; auto|]. specialize (B _ _ HIn'). lia.
    - rewrite cells_add_length. unfold matrix_iter in Z. now rewrite Z.
  Qed.
  Lemma add_gen_wfl (m m1 : matrix) v g : wfl m -> add_value_to_generation V m v g = SOk m1 -> wfl m1.
  Proof.
    intros (Hn & B) H. destruct (add_gen_cells _ _ _ _ H) as (C & Sz & L1 & L2). unfold wfl. rewrite C. split.
    - apply cells_add_nonempty; auto.
    - intros j r HIn. destruct (cells_add_in _ _ _ _ _ HIn) as [E|HIn']; [subst; auto|]. specialize (B _ _ HIn'). lia.
  Qed.
  Lemma add_gen_perm (m m1 : matrix) v g : add_value_to_generation V m v g = SOk m1 ->
    Permutation (matrix_iter V m1) (v :: matrix_iter V m).
  Proof. intros H. destruct (add_gen_cells _ _ _ _ H) as (C & _). unfold matrix_iter. rewrite C. apply cells_add_perm. Qed.

  Lemma new_last_idx_spec (m : matrix) i : new_last_non_empty_generation_idx V m = SOk i -> i = m_len m - 1.
  Proof.
    unfold new_last_non_empty_generation_idx. destruct (N.eqb_spec (m_len m) 0) as [E|E].
    - intros H; inversion H. lia.
    - intros H. apply gen_idx_ok in H. tauto.
  Qed.

  (* ---------- stream_add_value ---------- *)
  Lemma stream_add_inv (s s1 : stream) v g : stream_add_value V s v g = SOk s1 ->
    stream_size V s1 < stream_max_size /\
    match g with
    | GPrevious pg => add_value_to_generation V (s_prev s) v pg = SOk (s_prev s1) /\ s_cur s1 = s_cur s /\ s_new s1 = s_new s
    | GCurrent cg => add_value_to_generation V (s_cur s) v cg = SOk (s_cur s1) /\ s_prev s1 = s_prev s /\ s_new s1 = s_new s
    | GNew => add_value_to_generation V (s_new s) v (m_len (s_new s) - 1) = SOk (s_new s1) /\ s_prev s1 = s_prev s /\ s_cur s1 = s_cur s
    end.
  Proof.
    unfold stream_add_value. destruct (generation_in_range g); cbn [negb]; [|discriminate].
    intros H. apply sbind_ok in H. destruct H as (s2 & H1 & H2).
    apply sbind_ok in H2. destruct H2 as ([] & H2 & H3). inversion H3; subst s2. clear H3.
    unfold check_stream_size_limit in H2. destruct (N.leb_spec stream_max_size (stream_size V s1)); [discriminate|].
    split; [assumption|].
    destruct g as [pg|cg|].
    - apply sbind_ok in H1. destruct H1 as (m & H1 & H3). inversion H3; subst; cbn. auto.
    - apply sbind_ok in H1. destruct H1 as (m & H1 & H3). inversion H3; subst; cbn. auto.
    - apply sbind_ok in H1. destruct H1 as (m & H1 & H3). inversion H3; subst; cbn.
      unfold new_add_to_last_generation in H1. apply sbind_ok in H1. destruct H1 as (i & Hi & H1).
      apply new_last_idx_spec in Hi. subst i. auto.
  Qed.

  (* the guard of Stream::add_value: a successful append used a generation index below STREAM_MAX_SIZE *)
  Lemma stream_add_in_range (s s1 : stream) v g : stream_add_value V s v g = SOk s1 -> generation_in_range g = true.
  Proof. unfold stream_add_value. destruct (generation_in_range g); cbn [negb]; [reflexivity|discriminate]. Qed.
  Lemma stream_add_out_of_range (s : stream) v g : generation_in_range g = false ->
    stream_add_value V s v g = SErr StreamSizeLimitExceeded.
  Proof. intros H. unfold stream_add_value. rewrite H. reflexivity. Qed.

  (* the three cases at once: one matrix receives the value, the others are unchanged *)
  Lemma stream_add_cases (s s1 : stream) v g : stream_add_value V s v g = SOk s1 ->
    stream_size V s1 < stream_max_size /\
    exists k,
      (g = GPrevious k /\ add_value_to_generation V (s_prev s) v k = SOk (s_prev s1) /\ s_cur s1 = s_cur s /\ s_new s1 = s_new s) \/
      (g = GCurrent k /\ add_value_to_generation V (s_cur s) v k = SOk (s_cur s1) /\ s_prev s1 = s_prev s /\ s_new s1 = s_new s) \/
      (g = GNew /\ k = m_len (s_new s) - 1 /\ add_value_to_generation V (s_new s) v k = SOk (s_new s1) /\ s_prev s1 = s_prev s /\ s_cur s1 = s_cur s).
  Proof.
    intros H. apply stream_add_inv in H. destruct H as (L & H). split; auto.
    destruct g as [pg|cg|]; [exists pg|exists cg|exists (m_len (s_new s) - 1)]; intuition.
  Qed.

  Lemma stream_add_wf (s s1 : stream) v g : wf_stream V s -> stream_add_value V s v g = SOk s1 -> wf_stream V s1.
  Proof.
    intros (Wp & Wc & Wn) H. apply stream_add_cases in H. destruct H as (_ & k & [H|[H|H]]).
    - destruct H as (_ & A & B & C). unfold wf_stream. rewrite B, C. split; [|split]; try assumption; (eapply add_gen_wf; [|exact A]; assumption).
    - destruct H as (_ & A & B & C). unfold wf_stream. rewrite B, C. split; [|split]; try assumption; (eapply add_gen_wf; [|exact A]; assumption).
    - destruct H as (_ & _ & A & B & C). unfold wf_stream. rewrite B, C. split; [|split]; try assumption; (eapply add_gen_wf; [|exact A]; assumption).
  Qed.
  Lemma stream_add_size (s s1 : stream) v g : stream_add_value V s v g = SOk s1 -> stream_size V s1 = stream_size V s + 1.
  Proof.
    intros H. apply stream_add_cases in H. destruct H as (_ & k & [H|[H|H]]); unfold stream_size, matrix_get_size.
    - destruct H as (_ & A & B & C). rewrite B, C. apply add_gen_cells in A. destruct A as (_ & A & _). lia.
    - destruct H as (_ & A & B & C). rewrite B, C. apply add_gen_cells in A. destruct A as (_ & A & _). lia.
    - destruct H as (_ & _ & A & B & C). rewrite B, C. apply add_gen_cells in A. destruct A as (_ & A & _). lia.
  Qed.
  Lemma stream_add_perm (s s1 : stream) v g : stream_add_value V s v g = SOk s1 ->
    Permutation (stream_iter V s1) (v :: stream_iter V s).
  Proof.
    intros H. apply stream_add_cases in H. destruct H as (_ & k & [H|[H|H]]); unfold stream_iter.
    - destruct H as (_ & A & B & C). rewrite B, C. apply add_gen_perm in A.
      change (v :: matrix_iter V (s_prev s) ++ ?x) with ((v :: matrix_iter V (s_prev s)) ++ x).
      apply Permutation_app_tail. exact A.
    - destruct H as (_ & A & B & C). rewrite B, C. apply add_gen_perm in A.
      eapply Permutation_trans; [|apply Permutation_sym, Permutation_middle]. apply Permutation_app_head.
      change (v :: matrix_iter V (s_cur s) ++ ?x) with ((v :: matrix_iter V (s_cur s)) ++ x).
      apply Permutation_app_tail. exact A.
    - destruct H as (_ & _ & A & B & C). rewrite B, C. apply add_gen_perm in A.
      eapply Permutation_trans; [|apply Permutation_sym, Permutation_middle]. apply Permutation_app_head.
      eapply Permutation_trans; [|apply Permutation_sym, Permutation_middle]. apply Permutation_app_head. exact A.
  Qed.
  Lemma wf_stream_size (s : stream) : wf_stream V s -> stream_size V s = lenN (stream_iter V s).
  Proof.
    intros ((_ & _ & A) & (_ & _ & B) & (_ & _ & C)). unfold stream_size, matrix_get_size, stream_iter.
    rewrite !lenN_app. lia.
  Qed.

  Lemma wf_stream_new : wf_stream V (stream_new V).
  Proof. unfold wf_stream, stream_new, wf_matrix, matrix_new, cells_below; cbn. repeat split; auto; intros ? ? []. Qed.

  Lemma add_gen_no_err (m : matrix) v g e : add_value_to_generation V m v g = SErr e -> False.
  Proof.
    unfold add_value_to_generation. destruct (m_len m <=? g); [destruct (gen_u32_max <=? g)|]; discriminate.
  Qed.
  Lemma new_add_no_err (m : matrix) v e : new_add_to_last_generation V m v = SErr e -> False.
  Proof.
    unfold new_add_to_last_generation, new_last_non_empty_generation_idx, gen_idx_from_usize.
    destruct (m_len m =? 0); cbn [sbind]; [apply add_gen_no_err|].
    destruct (m_len m - 1 <=? gen_u32_max); cbn [sbind]; [apply add_gen_no_err|discriminate].
  Qed.

  Theorem C13_add_value : C13_add_value_stmt V.
  Proof.
    intros s v g W. destruct (stream_add_value V s v g) as [s1|e|c] eqn:H.
    - pose proof (stream_add_cases _ _ _ _ H) as (L & _).
      split; [eapply stream_add_size; eauto|]. split; [exact L|].
      split; [eapply stream_add_perm; eauto|eapply stream_add_wf; eauto].
    - destruct e. destruct (generation_in_range g) eqn:R; [left|right; reflexivity].
      unfold stream_add_value in H. rewrite R in H. cbn [negb] in H.
      destruct g as [pg|cg|]; cbn in H.
      + destruct (add_value_to_generation V (s_prev s) v pg) as [m|e'|] eqn:A; cbn in H; try discriminate; [|exfalso; eauto using add_gen_no_err, new_add_no_err].
        unfold check_stream_size_limit in H.
        match type of H with context [N.leb ?a ?b] => destruct (N.leb_spec a b) as [L|L] end; [|discriminate].
        unfold stream_size, matrix_get_size in *. cbn in L. apply add_gen_cells in A. destruct A as (_ & A & _). lia.
      + destruct (add_value_to_generation V (s_cur s) v cg) as [m|e'|] eqn:A; cbn in H; try discriminate; [|exfalso; eauto using add_gen_no_err, new_add_no_err].
        unfold check_stream_size_limit in H.
        match type of H with context [N.leb ?a ?b] => destruct (N.leb_spec a b) as [L|L] end; [|discriminate].
        unfold stream_size, matrix_get_size in *. cbn in L. apply add_gen_cells in A. destruct A as (_ & A & _). lia.
      + destruct (new_add_to_last_generation V (s_new s) v) as [m|e'|] eqn:A; cbn in H; try discriminate; [|exfalso; eauto using add_gen_no_err, new_add_no_err].
        unfold check_stream_size_limit in H.
        match type of H with context [N.leb ?a ?b] => destruct (N.leb_spec a b) as [L|L] end; [|discriminate].
        unfold stream_size, matrix_get_size in *. cbn in L.
        unfold new_add_to_last_generation in A. apply sbind_ok in A. destruct A as (i & _ & A).
        apply add_gen_cells in A. destruct A as (_ & A & _). lia.
    - exact I.
  Qed.

  (* ---- the generation guard of Stream::add_value (fix C01-stream-generation-resize) ---- *)
  Lemma max_size_fits_u32 : stream_max_size <= gen_u32_max.
  Proof. apply N.leb_le. vm_compute. reflexivity. Qed.

  (* values_matrix.rs:77 `generation_idx.checked_add(1).unwrap()` cannot panic under Stream::add_value:
     a previous/current index reaches the matrix only when it is below STREAM_MAX_SIZE, and the index
     used for `new` is the last row *)
  Lemma check_no_crash (s1 : stream) site :
    sbind (check_stream_size_limit V s1) (fun _ : unit => SOk s1) <> SCrash site.
  Proof. unfold check_stream_size_limit. destruct (stream_max_size <=? stream_size V s1); cbn [sbind]; discriminate. Qed.
  Theorem add_value_no_checked_add_crash (s : stream) v g : stream_add_value V s v g <> SCrash SiteGenCheckedAddOne.
  Proof.
    pose proof max_size_fits_u32 as M.
    unfold stream_add_value. destruct (generation_in_range g) eqn:R; cbn [negb]; [|discriminate].
    assert (A : forall m k, k < stream_max_size \/ k < m_len m ->
                add_value_to_generation V m v k <> SCrash SiteGenCheckedAddOne).
    { intros m k Hk. unfold add_value_to_generation.
      destruct (N.leb_spec (m_len m) k); [|discriminate].
      destruct (N.leb_spec gen_u32_max k); [|discriminate]. lia. }
    destruct g as [pg|cg|]; cbn [generation_in_range] in R.
    - apply N.ltb_lt in R. specialize (A (s_prev s) pg (or_introl R)).
      destruct (add_value_to_generation V (s_prev s) v pg) as [m|e|c]; cbn [sbind].
      + apply check_no_crash.
      + discriminate.
      + intros E. apply A. inversion E. reflexivity.
    - apply N.ltb_lt in R. specialize (A (s_cur s) cg (or_introl R)).
      destruct (add_value_to_generation V (s_cur s) v cg) as [m|e|c]; cbn [sbind].
      + apply check_no_crash.
      + discriminate.
      + intros E. apply A. inversion E. reflexivity.
    - unfold new_add_to_last_generation, new_last_non_empty_generation_idx, gen_idx_from_usize.
      destruct (N.eqb_spec (m_len (s_new s)) 0) as [Z|Z]; cbn [sbind].
      + assert (P0 : 0 < stream_max_size) by (apply N.ltb_lt; vm_compute; reflexivity).
        assert (A0 := A (s_new s) 0 (or_introl P0)).
        destruct (add_value_to_generation V (s_new s) v 0) as [m|e|c]; cbn [sbind].
        * apply check_no_crash.
        * discriminate.
        * intros E. apply A0. inversion E. reflexivity.
      + destruct (m_len (s_new s) - 1 <=? gen_u32_max); cbn [sbind]; [|discriminate].
        assert (P1 : m_len (s_new s) - 1 < m_len (s_new s)) by lia.
        assert (A1 := A (s_new s) (m_len (s_new s) - 1) (or_intror P1)).
        destruct (add_value_to_generation V (s_new s) v (m_len (s_new s) - 1)) as [m|e|c]; cbn [sbind].
        * apply check_no_crash.
        * discriminate.
        * intros E. apply A1. inversion E. reflexivity.
  Qed.

  (* `resize` under an accepted or refused add_value allocates at most STREAM_MAX_SIZE rows
     (before the fix: up to 2^32 rows for a crafted generation index) *)
  Theorem add_value_resize_bounded (s : stream) (g : generation) :
    generation_in_range g = true -> stream_grow_rows V s g <= stream_max_size.
  Proof.
    intros R. pose proof max_size_fits_u32 as M.
    destruct g as [pg|cg|]; cbn [generation_in_range stream_grow_rows] in *.
    - apply N.ltb_lt in R. unfold matrix_grow_rows. destruct (N.leb_spec (m_len (s_prev s)) pg); lia.
    - apply N.ltb_lt in R. unfold matrix_grow_rows. destruct (N.leb_spec (m_len (s_cur s)) cg); lia.
    - assert (1 <= stream_max_size) by (apply N.leb_le; vm_compute; reflexivity).
      destruct (m_len (s_new s) =? 0); lia.
  Qed.
  Theorem add_value_refused_untouched (s : stream) v g :
    generation_in_range g = false -> stream_add_value V s v g = SErr StreamSizeLimitExceeded.
  Proof. apply stream_add_out_of_range. Qed.

  (* generalised over the start stream *)
  Lemma add_all_exact (l : list (V * generation)) : forall s0 s, wf_stream V s0 -> add_all V s0 l = SOk s ->
    Permutation (stream_iter V s) (rev (map fst l) ++ stream_iter V s0) /\
    stream_size V s = stream_size V s0 + lenN l /\ wf_stream V s /\ (l <> [] -> stream_size V s < stream_max_size).
  Proof.
    induction l as [|[v g] t IH]; intros s0 s W H.
    - cbn in H. inversion H; subst. cbn [map rev app]. rewrite lenN_nil.
      split; [apply Permutation_refl|]. split; [lia|]. split; [exact W|congruence].
    - cbn [add_all] in H. apply sbind_ok in H. destruct H as (s1 & H1 & H2).
      pose proof (stream_add_wf _ _ _ _ W H1) as W1.
      destruct (IH _ _ W1 H2) as (P & Sz & W2 & Lim).
      split; [|split; [|split; [exact W2|]]].
      + eapply Permutation_trans; [exact P|]. cbn [map fst rev]. rewrite <- app_assoc. cbn [app].
        apply Permutation_app_head. eapply stream_add_perm; eauto.
      + rewrite Sz, (stream_add_size _ _ _ _ H1), lenN_cons. lia.
      + intros _. destruct t as [|x t].
        * cbn in H2. inversion H2; subst. apply stream_add_cases in H1. tauto.
        * apply Lim. discriminate.
  Qed.

  Theorem C13_stream_exact : C13_stream_exact_stmt V.
  Proof.
    intros l s H. destruct (add_all_exact l _ _ wf_stream_new H) as (P & Sz & W & Lim).
    assert (E0 : stream_size V (stream_new V) = 0) by reflexivity.
    split; [|split; [|split; [|split; [|exact W]]]].
    - eapply Permutation_trans; [exact P|]. cbn. rewrite app_nil_r. apply Permutation_sym, Permutation_rev.
    - apply wf_stream_size; auto.
    - lia.
    - destruct l; [cbn in H; inversion H; subst; reflexivity|apply Lim; discriminate].
  Qed.
End Exact.

Section IterOrder.
  Variable V : Type.
  Notation cells := (cells V).
  Notation matrix := (matrix V).
  Notation stream := (stream V).

  (* ---------- iteration order ---------- *)
  Lemma tagged_values (c : cells) : map snd (cells_tagged V c) = concat (map snd c).
  Proof.
    unfold cells_tagged. induction c as [|[j r] t IH]; [reflexivity|].
    cbn [map concat snd fst]. rewrite map_app, IH. f_equal. rewrite map_map. cbn. apply map_id.
  Qed.
  Lemma tagged_cons j r (t : cells) : cells_tagged V ((j, r) :: t) = map (fun v => (j, v)) r ++ cells_tagged V t.
  Proof. reflexivity. Qed.
  Lemma tagged_ge lo (c : cells) : cells_sorted V lo c -> Forall (fun x => lo <= fst x) (cells_tagged V c).
  Proof.
    revert lo. induction c as [|[j r] t IH]; intros lo H; [constructor|].
    cbn [cells_sorted] in H. destruct H as (H1 & H2 & H3). rewrite tagged_cons. apply Forall_app. split.
    - apply Forall_forall. intros x Hx. apply in_map_iff in Hx. destruct Hx as (v & E & _). subst x. exact H1.
    - eapply Forall_impl; [|apply (IH _ H3)]. cbn. intros a Ha. lia.
  Qed.
  Lemma tagged_sorted lo (c : cells) : cells_sorted V lo c -> StronglySorted (gen_le V) (cells_tagged V c).
  Proof.
    revert lo. induction c as [|[j r] t IH]; intros lo H; [constructor|].
    cbn [cells_sorted] in H. destruct H as (H1 & H2 & H3). rewrite tagged_cons.
    pose proof (tagged_ge _ _ H3) as G. specialize (IH _ H3). clear H2.
    induction r as [|v r IHr]; [exact IH|].
    cbn [map app]. constructor; [exact IHr|]. apply Forall_app. split.
    - apply Forall_forall. intros x Hx. apply in_map_iff in Hx. destruct Hx as (w & E & _). subst x. unfold gen_le. cbn. lia.
    - eapply Forall_impl; [|exact G]. unfold gen_le. cbn. intros a Ha. lia.
  Qed.

  Definition gfilter (g : N) (l : list (N * V)) : list V := map snd (filter (fun x => fst x =? g) l).
  Lemma gfilter_app g l1 l2 : gfilter g (l1 ++ l2) = gfilter g l1 ++ gfilter g l2.
  Proof. unfold gfilter. now rewrite filter_app, map_app. Qed.
  Lemma gfilter_row g j (r : list V) : gfilter g (map (fun v => (j, v)) r) = if j =? g then r else [].
  Proof.
    unfold gfilter. induction r as [|v r IH]; cbn [map filter fst]; [destruct (j =? g); reflexivity|].
    destruct (j =? g); cbn [map snd]; [now rewrite IH|exact IH].
  Qed.
  Lemma gfilter_above g lo (c : cells) : cells_sorted V lo c -> g < lo -> gfilter g (cells_tagged V c) = [].
  Proof.
    intros S L. pose proof (tagged_ge _ _ S) as G. unfold gfilter.
    induction (cells_tagged V c) as [|x l IH]; [reflexivity|]. inversion G; subst.
    cbn [filter]. destruct (N.eqb_spec (fst x) g); [lia|]. auto.
  Qed.
  Lemma gfilter_add lo (c : cells) g v h : cells_sorted V lo c ->
    gfilter h (cells_tagged V (cells_add V c g v)) = gfilter h (cells_tagged V c) ++ (if g =? h then [v] else []).
  Proof.
    revert lo. induction c as [|[j r] t IH]; intros lo S; cbn [cells_add].
    - rewrite tagged_cons, gfilter_app, gfilter_row. unfold cells_tagged; cbn. now rewrite app_nil_r.
    - cbn [cells_sorted] in S. destruct S as (S1 & S2 & S3).
      destruct (N.ltb_spec g j) as [Lt|Ge].
      + rewrite (tagged_cons g [v]), gfilter_app, gfilter_row. destruct (N.eqb_spec g h) as [E|NE].
        * subst h. rewrite tagged_cons, gfilter_app, gfilter_row. destruct (N.eqb_spec j g); [lia|].
          rewrite (gfilter_above g (j + 1) t S3) by lia. reflexivity.
        * cbn [app]. now rewrite app_nil_r.
      + destruct (N.eqb_spec g j) as [E|NE].
        * subst j. rewrite !tagged_cons, !gfilter_app, !gfilter_row.
          destruct (N.eqb_spec g h) as [E|NE].
          -- subst h. rewrite (gfilter_above g (g + 1) t S3) by lia. now rewrite !app_nil_r.
          -- cbn [app]. now rewrite app_nil_r.
        * rewrite !tagged_cons, !gfilter_app, (IH _ S3). now rewrite app_assoc.
  Qed.

  Lemma wf_matrix_sorted (m : matrix) : wf_matrix V m -> cells_sorted V 0 (m_cells m).
  Proof. intros (S & _). exact S. Qed.

  (* generalised statement for the order lemma *)
  Definition one_new_row (m : matrix) : Prop :=
    (m_cells m = [] /\ m_len m = 0) \/ exists r, m_cells m = [(0, r)] /\ m_len m = 1.

  Lemma add_all_order (l : list (V * generation)) : forall s0 s, wf_stream V s0 -> one_new_row (s_new s0) ->
    add_all V s0 l = SOk s ->
    (forall g, gfilter g (matrix_tagged V (s_prev s)) = gfilter g (matrix_tagged V (s_prev s0)) ++ map fst (filter (is_prev_gen V g) l)) /\
    (forall g, gfilter g (matrix_tagged V (s_cur s)) = gfilter g (matrix_tagged V (s_cur s0)) ++ map fst (filter (is_cur_gen V g) l)) /\
    map snd (matrix_tagged V (s_new s)) = map snd (matrix_tagged V (s_new s0)) ++ map fst (filter (is_new_gen V) l).
  Proof.
    induction l as [|[v g] t IH]; intros s0 s W O H.
    - cbn in H. inversion H; subst. cbn [filter map]. repeat split; intros; now rewrite app_nil_r.
    - cbn [add_all] in H. apply sbind_ok in H. destruct H as (s1 & H1 & H2).
      pose proof (stream_add_wf _ _ _ _ _ W H1) as W1.
      pose proof (stream_add_cases _ _ _ _ _ H1) as (_ & k & Hc).
      destruct W as (Wp & Wc & Wn).
      assert (O1 : one_new_row (s_new s1)).
      { destruct Hc as [Hc|[Hc|Hc]].
        - destruct Hc as (_ & _ & _ & C). now rewrite C.
        - destruct Hc as (_ & _ & _ & C). now rewrite C.
        - destruct Hc as (_ & Ek & A & _). apply add_gen_spec in A.
          destruct O as [(Oc & Ol)|(r & Oc & Ol)].
          + rewrite Ol in Ek. cbn in Ek. subst k. rewrite Oc, Ol in A. right. exists [v].
            destruct A as [(A1 & _ & A3 & _)|(_ & _ & _ & A4)]; [|lia]. rewrite A1, A3. cbn. split; reflexivity.
          + rewrite Ol in Ek. cbn in Ek. subst k. rewrite Oc, Ol in A. right. exists (r ++ [v]).
            destruct A as [(A1 & _ & A3 & _)|(A1 & _ & A3 & _)]; rewrite A1, A3; cbn; split; reflexivity. }
      destruct (IH _ _ W1 O1 H2) as (IP & IC & IN).
      destruct Hc as [Hc|[Hc|Hc]].
      + destruct Hc as (Eg & A & B & C). subst g. apply add_gen_cells in A. destruct A as (A & _).
        split; [|split].
        * intros g. rewrite IP. unfold matrix_tagged. rewrite A, (gfilter_add 0 _ _ _ _ (wf_matrix_sorted _ Wp)).
          rewrite <- app_assoc. f_equal. cbn [filter is_prev_gen snd]. destruct (k =? g); reflexivity.
        * intros g. rewrite IC, B. reflexivity.
        * rewrite IN, C. reflexivity.
      + destruct Hc as (Eg & A & B & C). subst g. apply add_gen_cells in A. destruct A as (A & _).
        split; [|split].
        * intros g. rewrite IP, B. reflexivity.
        * intros g. rewrite IC. unfold matrix_tagged. rewrite A, (gfilter_add 0 _ _ _ _ (wf_matrix_sorted _ Wc)).
          rewrite <- app_assoc. f_equal. cbn [filter is_cur_gen snd]. destruct (k =? g); reflexivity.
        * rewrite IN, C. reflexivity.
      + destruct Hc as (Eg & Ek & A & B & C). subst g. apply add_gen_cells in A. destruct A as (A & _).
        split; [|split].
        * intros g. rewrite IP, B. reflexivity.
        * intros g. rewrite IC, C. reflexivity.
        * rewrite IN. unfold matrix_tagged. rewrite A. cbn [filter is_new_gen snd map fst].
          rewrite !tagged_values.
          destruct O as [(Oc & Ol)|(r & Oc & Ol)]; rewrite Oc, Ol in *; cbn in Ek; subst k; cbn.
          -- reflexivity.
          -- rewrite !app_nil_r. now rewrite <- app_assoc.
  Qed.

  Theorem C12_iter_order : C12_iter_order_stmt V.
  Proof.
    intros l s H.
    destruct (add_all_exact _ l _ _ (wf_stream_new V) H) as (_ & _ & (Wp & Wc & Wn) & _).
    assert (O : one_new_row (s_new (stream_new V))) by (left; split; reflexivity).
    destruct (add_all_order l _ _ (wf_stream_new V) O H) as (IP & IC & IN).
    split; [|split; [|split; [|split; [|split; [|split]]]]].
    - unfold stream_iter, matrix_iter, matrix_tagged. now rewrite !tagged_values.
    - eapply tagged_sorted, wf_matrix_sorted, Wp.
    - eapply tagged_sorted, wf_matrix_sorted, Wc.
    - eapply tagged_sorted, wf_matrix_sorted, Wn.
    - intros g. apply (IP g).
    - intros g. apply (IC g).
    - exact IN.
  Qed.
End IterOrder.

Section Compactify.
  Variable V : Type.
  Notation cells := (cells V).
  Notation matrix := (matrix V).
  Notation stream := (stream V).
  Notation tagged4 := (tagged4 V).

  (* ---------- non-empty rows, remove_empty_generations ---------- *)
  Definition ne_cells (c : cells) : list (list V) := filter (row_nonempty V) (map snd c).
  Lemma ne_cells_id (c : cells) : rows_nonempty V c -> ne_cells c = map snd c.
  Proof.
    unfold ne_cells. induction c as [|[j r] t IH]; intros Hn; [reflexivity|]. cbn [map snd filter].
    assert (r <> []) by (eapply Hn; left; reflexivity).
    destruct r; [congruence|]. cbn. f_equal. apply IH. intros j' r' H'. eapply Hn; right; eauto.
  Qed.
  Lemma ne_cells_all_nonempty (c : cells) : Forall (fun r => r <> []) (ne_cells c).
  Proof.
    unfold ne_cells. apply Forall_forall. intros r Hr. apply filter_In in Hr. destruct Hr as (_ & Hr).
    destruct r; [discriminate|congruence].
  Qed.
  Lemma filter_idem {A} (f : A -> bool) l : filter f (filter f l) = filter f l.
  Proof. induction l as [|x l IH]; [reflexivity|]. cbn. destruct (f x) eqn:E; cbn; rewrite ?E, IH; reflexivity. Qed.
  Lemma map_snd_renumber i (rows : list (list V)) : map snd (renumber V i rows) = rows.
  Proof. revert i. induction rows as [|r t IH]; intros i; [reflexivity|]. cbn. now rewrite IH. Qed.
  Lemma renumber_sorted i (rows : list (list V)) : Forall (fun r => r <> []) rows -> cells_sorted V i (renumber V i rows).
  Proof.
    revert i. induction rows as [|r t IH]; intros i F; [exact I|]. inversion F; subst.
    cbn [renumber cells_sorted]. split; [lia|]. split; [assumption|]. apply IH. assumption.
  Qed.
  Lemma renumber_below i (rows : list (list V)) : cells_below V (renumber V i rows) (i + lenN rows).
  Proof.
    revert i. induction rows as [|r t IH]; intros i j r' H; [destruct H|].
    cbn [renumber] in H. rewrite lenN_cons. destruct H as [E|H]; [inversion E; lia|].
    specialize (IH _ _ _ H). lia.
  Qed.

  Lemma ne_remove_empty (m : matrix) : nonempty_rows V (remove_empty_generations V m) = nonempty_rows V m.
  Proof. unfold nonempty_rows, remove_empty_generations. cbn [m_cells]. rewrite map_snd_renumber. apply filter_idem. Qed.
  Lemma iter_ne (m : matrix) : matrix_iter V m = concat (nonempty_rows V m).
  Proof. unfold matrix_iter, nonempty_rows, row_nonempty. now rewrite concat_filter_nonempty. Qed.
  Lemma iter_remove_empty (m : matrix) : matrix_iter V (remove_empty_generations V m) = matrix_iter V m.
  Proof. now rewrite !iter_ne, ne_remove_empty. Qed.
  Lemma wf_remove_empty (m : matrix) : wf_matrix V m -> wf_matrix V (remove_empty_generations V m).
  Proof.
    intros (S & B & Z). split; [|split].
    - cbn [remove_empty_generations m_cells]. apply renumber_sorted. apply ne_cells_all_nonempty.
    - cbn [remove_empty_generations m_cells m_len]. apply (renumber_below 0).
    - rewrite iter_remove_empty. exact Z.
  Qed.
  Lemma dense_remove_empty (m : matrix) : matrix_dense V (remove_empty_generations V m) = true.
  Proof. unfold matrix_dense. rewrite ne_remove_empty. cbn. apply N.eqb_refl. Qed.

  (* ---------- retag_cells ---------- *)
  Notation count c := (lenN (ne_cells c)).
  Lemma ne_cells_cons j r (t : cells) : r <> [] -> ne_cells ((j, r) :: t) = r :: ne_cells t.
  Proof. intros Hr. unfold ne_cells. cbn. destruct r; [congruence|reflexivity]. Qed.
  Lemma retag_cons src j r (t : cells) next : r <> [] ->
    retag_cells V src ((j, r) :: t) next = map (fun v => (v, src, j, next)) r ++ retag_cells V src t (next + 1).
  Proof. intros Hr. cbn [retag_cells]. destruct r; [congruence|reflexivity]. Qed.

  Lemma retag_range src lo (c : cells) next : cells_sorted V lo c ->
    forall x, In x (retag_cells V src c next) ->
      t_src V x = src /\ next <= t_new V x /\ t_new V x < next + count c /\ lo <= t_old V x.
  Proof.
    revert lo next. induction c as [|[j r] t IH]; intros lo next S x Hx; [destruct Hx|].
    cbn [cells_sorted] in S. destruct S as (S1 & S2 & S3).
    rewrite retag_cons in Hx by assumption. rewrite ne_cells_cons by assumption. rewrite lenN_cons.
    apply in_app_or in Hx. destruct Hx as [Hx|Hx].
    - apply in_map_iff in Hx. destruct Hx as (v & E & _). subst x. cbn. repeat split; try lia.
    - destruct (IH _ _ S3 _ Hx) as (A & B & C & D). repeat split; try assumption; lia.
  Qed.
  Lemma retag_onto src lo (c : cells) next : cells_sorted V lo c ->
    forall g, next <= g -> g < next + count c -> exists x, In x (retag_cells V src c next) /\ t_new V x = g.
  Proof.
    revert lo next. induction c as [|[j r] t IH]; intros lo next S g G1 G2.
    - cbn in G2. lia.
    - cbn [cells_sorted] in S. destruct S as (S1 & S2 & S3).
      rewrite retag_cons by assumption. rewrite ne_cells_cons, lenN_cons in G2 by assumption.
      destruct (N.eq_dec g next) as [E|NE].
      + subst g. destruct r as [|v r]; [congruence|]. exists (v, src, j, next). split; [left; reflexivity|reflexivity].
      + destruct (IH _ (next + 1) S3 g) as (x & Hx & Ex); try lia. exists x. split; [apply in_or_app; right; exact Hx|exact Ex].
  Qed.
  Lemma retag_mono src lo (c : cells) next : cells_sorted V lo c ->
    forall x y, In x (retag_cells V src c next) -> In y (retag_cells V src c next) ->
      (t_old V x < t_old V y <-> t_new V x < t_new V y) /\ (t_old V x = t_old V y <-> t_new V x = t_new V y).
  Proof.
    revert lo next. induction c as [|[j r] t IH]; intros lo next S x y Hx Hy; [destruct Hx|].
    cbn [cells_sorted] in S. destruct S as (S1 & S2 & S3).
    rewrite retag_cons in Hx, Hy by assumption.
    apply in_app_or in Hx. apply in_app_or in Hy.
    destruct Hx as [Hx|Hx]; destruct Hy as [Hy|Hy].
    - apply in_map_iff in Hx. destruct Hx as (v & E & _). subst x.
      apply in_map_iff in Hy. destruct Hy as (w & E & _). subst y. cbn. lia.
    - apply in_map_iff in Hx. destruct Hx as (v & E & _). subst x.
      destruct (retag_range _ _ _ _ S3 _ Hy) as (_ & B & _ & D). cbn. lia.
    - apply in_map_iff in Hy. destruct Hy as (v & E & _). subst y.
      destruct (retag_range _ _ _ _ S3 _ Hx) as (_ & B & _ & D). cbn. lia.
    - eapply IH; eauto.
  Qed.
  Lemma retag_values src lo (c : cells) next : cells_sorted V lo c ->
    map (t_val V) (retag_cells V src c next) = concat (map snd c).
  Proof.
    revert lo next. induction c as [|[j r] t IH]; intros lo next S; [reflexivity|].
    cbn [cells_sorted] in S. destruct S as (S1 & S2 & S3).
    rewrite retag_cons by assumption. rewrite map_app, (IH _ _ S3). cbn [map snd concat]. f_equal.
    rewrite map_map. cbn. apply map_id.
  Qed.
  Lemma retag_old_in src lo (c : cells) next : cells_sorted V lo c ->
    forall v g, (exists g', In (v, src, g, g') (retag_cells V src c next)) <-> In (g, v) (cells_tagged V c).
  Proof.
    revert lo next. induction c as [|[j r] t IH]; intros lo next S v g.
    - cbn. split; [intros (g' & [])|intros []].
    - cbn [cells_sorted] in S. destruct S as (S1 & S2 & S3).
      rewrite retag_cons by assumption. rewrite tagged_cons. split.
      + intros (g' & H). apply in_or_app. apply in_app_or in H. destruct H as [H|H].
        * left. apply in_map_iff in H. destruct H as (w & E & Hw). inversion E; subst. apply in_map_iff. eauto.
        * right. apply (IH _ (next + 1) S3). eauto.
      + intros H. apply in_app_or in H. destruct H as [H|H].
        * apply in_map_iff in H. destruct H as (w & E & Hw). inversion E; subst. exists next.
          apply in_or_app. left. apply in_map_iff. eauto.
        * apply (IH _ (next + 1) S3) in H. destruct H as (g' & H). exists g'. apply in_or_app. right. exact H.
  Qed.

  Lemma count_nonempty_eq (m : matrix) : count_nonempty V m = count (m_cells m).
  Proof. reflexivity. Qed.

  Section WithPos.
  Variable pos_of : V -> N.
  (* update_generations emits exactly the retagged values *)
  Lemma update_generations_spec src lo (c : cells) start position : cells_sorted V lo c ->
    start + position + count c <= gen_u32_max + 1 ->
    update_generations V pos_of (ne_cells c) start position =
      {| cp_updates := map (fun x => (pos_of (t_val V x), t_new V x)) (retag_cells V src c (start + position));
         cp_crash := None |}.
  Proof.
    revert lo position. induction c as [|[j r] t IH]; intros lo position S L; [reflexivity|].
    cbn [cells_sorted] in S. destruct S as (S1 & S2 & S3).
    rewrite ne_cells_cons in * by assumption. rewrite lenN_cons in L. rewrite retag_cons by assumption.
    cbn [update_generations].
    destruct (N.ltb_spec gen_u32_max position) as [C|C]; [lia|].
    destruct (N.ltb_spec gen_u32_max (start + position)) as [C'|C']; [lia|].
    rewrite (IH _ (position + 1) S3) by lia. cbn [cp_updates cp_crash]. f_equal.
    rewrite map_app, map_map. cbn. f_equal. now rewrite N.add_assoc.
  Qed.

  Theorem C12_compactify_order : C12_compactify_order_stmt V pos_of.
  Proof.
    intros s (Wp & Wc & Wn) Lim T.
    pose proof (wf_matrix_sorted _ _ Wp) as Sp. pose proof (wf_matrix_sorted _ _ Wc) as Sc.
    pose proof (wf_matrix_sorted _ _ Wn) as Sn.
    unfold count_all in *. rewrite !count_nonempty_eq in *.
    set (np := count (m_cells (s_prev s))) in *. set (nc := count (m_cells (s_cur s))) in *.
    set (nn := count (m_cells (s_new s))) in *.
    (* the plan *)
    assert (PL : snd (stream_compactify V pos_of s) =
      {| cp_updates := map (fun x => (pos_of (t_val V x), t_new V x)) T; cp_crash := None |}).
    { unfold stream_compactify. cbn [snd]. unfold matrix_slice_iter. rewrite !skipN_0, !ne_remove_empty.
      unfold generations_count. cbn [remove_empty_generations m_len].
      change (nonempty_rows V (s_prev s)) with (ne_cells (m_cells (s_prev s))).
      change (nonempty_rows V (s_cur s)) with (ne_cells (m_cells (s_cur s))).
      change (nonempty_rows V (s_new s)) with (ne_cells (m_cells (s_new s))).
      fold np nc nn.
      rewrite (update_generations_spec FromPrev 0 _ 0 0 Sp) by (fold np; lia).
      unfold plan_seq at 1. cbn [cp_crash cp_updates].
      unfold gen_idx_from_usize. destruct (N.leb_spec np gen_u32_max) as [C|C]; [|lia].
      cbn [plan_of_count].
      rewrite (update_generations_spec FromCur 0 _ np 0 Sc) by (fold nc; lia).
      unfold plan_seq at 1. cbn [cp_crash cp_updates].
      destruct (N.leb_spec nc gen_u32_max) as [C2|C2]; [|lia]. cbn [plan_of_count].
      destruct (N.ltb_spec gen_u32_max (np + nc)) as [C3|C3]; [lia|].
      rewrite (update_generations_spec FromNew 0 _ (np + nc) 0 Sn) by (fold nn; lia).
      cbn [cp_crash cp_updates]. unfold T, compact_tagged. rewrite !count_nonempty_eq. fold np nc.
      rewrite !N.add_0_r, !map_app. reflexivity. }
    assert (RP := retag_range FromPrev 0 _ 0 Sp). assert (RC := retag_range FromCur 0 _ np Sc).
    assert (RN := retag_range FromNew 0 _ (np + nc) Sn). fold np in RP. fold nc in RC. fold nn in RN.
    assert (IT : forall x, In x T ->
       In x (retag_cells V FromPrev (m_cells (s_prev s)) 0) \/ In x (retag_cells V FromCur (m_cells (s_cur s)) np)
       \/ In x (retag_cells V FromNew (m_cells (s_new s)) (np + nc))).
    { intros x Hx. unfold T, compact_tagged in Hx. rewrite !count_nonempty_eq in Hx. fold np nc in Hx.
      apply in_app_or in Hx. destruct Hx as [Hx|Hx]; [auto|]. apply in_app_or in Hx. tauto. }
    assert (TI : forall x, In x (retag_cells V FromPrev (m_cells (s_prev s)) 0) \/ In x (retag_cells V FromCur (m_cells (s_cur s)) np)
       \/ In x (retag_cells V FromNew (m_cells (s_new s)) (np + nc)) -> In x T).
    { intros x Hx. unfold T, compact_tagged. rewrite !count_nonempty_eq. fold np nc.
      apply in_or_app. destruct Hx as [Hx|Hx]; [auto|]. right. apply in_or_app. tauto. }
    split; [now rewrite PL|]. split; [now rewrite PL|]. split.
    { unfold T, compact_tagged. rewrite !map_app, (retag_values _ _ _ _ Sp), (retag_values _ _ _ _ Sc), (retag_values _ _ _ _ Sn).
      reflexivity. }
    split. { unfold stream_compactify, stream_iter. cbn [fst s_prev s_cur s_new]. now rewrite !iter_remove_empty. }
    split. { unfold stream_compactify. cbn [fst]. split; [|split]; cbn [s_prev s_cur s_new]; apply wf_remove_empty; assumption. }
    split. { unfold stream_compactify, stream_dense. cbn [fst s_prev s_cur s_new]. now rewrite !dense_remove_empty. }
    split.
    { intros g. split.
      - intros Lg. destruct (N.lt_ge_cases g np) as [A|A].
        + destruct (retag_onto FromPrev 0 _ 0 Sp g) as (x & Hx & E); [lia|fold np; lia|]. exists x. split; [apply TI; auto|exact E].
        + destruct (N.lt_ge_cases g (np + nc)) as [B|B].
          * destruct (retag_onto FromCur 0 _ np Sc g) as (x & Hx & E); [lia|fold nc; lia|]. exists x. split; [apply TI; auto|exact E].
          * destruct (retag_onto FromNew 0 _ (np + nc) Sn g) as (x & Hx & E); [lia|fold nn; lia|]. exists x. split; [apply TI; auto|exact E].
      - intros (x & Hx & E). subst g. destruct (IT _ Hx) as [H|[H|H]].
        + destruct (RP _ H) as (_ & _ & A & _). lia.
        + destruct (RC _ H) as (_ & _ & A & _). lia.
        + destruct (RN _ H) as (_ & _ & A & _). lia. }
    split.
    { intros x y Hx Hy R. destruct (IT _ Hx) as [H|[H|H]]; destruct (IT _ Hy) as [H'|[H'|H']];
      try (destruct (RP _ H) as (A1 & A2 & A3 & _)); try (destruct (RC _ H) as (A1 & A2 & A3 & _));
      try (destruct (RN _ H) as (A1 & A2 & A3 & _));
      try (destruct (RP _ H') as (B1 & B2 & B3 & _)); try (destruct (RC _ H') as (B1 & B2 & B3 & _));
      try (destruct (RN _ H') as (B1 & B2 & B3 & _));
      rewrite A1, B1 in R; cbn in R; lia. }
    { intros x y Hx Hy E. destruct (IT _ Hx) as [H|[H|H]]; destruct (IT _ Hy) as [H'|[H'|H']];
      try (exact (retag_mono _ _ _ _ Sp _ _ H H')); try (exact (retag_mono _ _ _ _ Sc _ _ H H'));
      try (exact (retag_mono _ _ _ _ Sn _ _ H H'));
      exfalso;
      try (destruct (RP _ H) as (A1 & _)); try (destruct (RC _ H) as (A1 & _)); try (destruct (RN _ H) as (A1 & _));
      try (destruct (RP _ H') as (B1 & _)); try (destruct (RC _ H') as (B1 & _)); try (destruct (RN _ H') as (B1 & _));
      congruence. }
  Qed.

  End WithPos.

  Lemma compact_tagged_order (s : stream) : wf_stream V s ->
    (forall x y, In x (compact_tagged V s) -> In y (compact_tagged V s) ->
       source_rank (t_src V x) < source_rank (t_src V y) -> t_new V x < t_new V y) /\
    (forall x y, In x (compact_tagged V s) -> In y (compact_tagged V s) -> t_src V x = t_src V y ->
       (t_old V x < t_old V y <-> t_new V x < t_new V y) /\ (t_old V x = t_old V y <-> t_new V x = t_new V y)).
  Proof.
    intros (Wp & Wc & Wn).
    pose proof (wf_matrix_sorted _ _ Wp) as Sp. pose proof (wf_matrix_sorted _ _ Wc) as Sc.
    pose proof (wf_matrix_sorted _ _ Wn) as Sn.
    set (np := count (m_cells (s_prev s))). set (nc := count (m_cells (s_cur s))).
    assert (RP := retag_range FromPrev 0 _ 0 Sp). assert (RC := retag_range FromCur 0 _ np Sc).
    assert (RN := retag_range FromNew 0 _ (np + nc) Sn). fold np in RP. fold nc in RC.
    assert (IT : forall x, In x (compact_tagged V s) ->
       In x (retag_cells V FromPrev (m_cells (s_prev s)) 0) \/ In x (retag_cells V FromCur (m_cells (s_cur s)) np)
       \/ In x (retag_cells V FromNew (m_cells (s_new s)) (np + nc))).
    { intros x Hx. unfold compact_tagged in Hx. rewrite !count_nonempty_eq in Hx. fold np nc in Hx.
      apply in_app_or in Hx. destruct Hx as [Hx|Hx]; [auto|]. apply in_app_or in Hx. tauto. }
    split.
    { intros x y Hx Hy R. destruct (IT _ Hx) as [H|[H|H]]; destruct (IT _ Hy) as [H'|[H'|H']];
      try (destruct (RP _ H) as (A1 & A2 & A3 & _)); try (destruct (RC _ H) as (A1 & A2 & A3 & _));
      try (destruct (RN _ H) as (A1 & A2 & A3 & _));
      try (destruct (RP _ H') as (B1 & B2 & B3 & _)); try (destruct (RC _ H') as (B1 & B2 & B3 & _));
      try (destruct (RN _ H') as (B1 & B2 & B3 & _));
      rewrite A1, B1 in R; cbn in R; lia. }
    { intros x y Hx Hy E. destruct (IT _ Hx) as [H|[H|H]]; destruct (IT _ Hy) as [H'|[H'|H']];
      try (exact (retag_mono _ _ _ _ Sp _ _ H H')); try (exact (retag_mono _ _ _ _ Sc _ _ H H'));
      try (exact (retag_mono _ _ _ _ Sn _ _ H H'));
      exfalso;
      try (destruct (RP _ H) as (A1 & _)); try (destruct (RC _ H) as (A1 & _)); try (destruct (RN _ H) as (A1 & _));
      try (destruct (RP _ H') as (B1 & _)); try (destruct (RC _ H') as (B1 & _)); try (destruct (RN _ H') as (B1 & _));
      congruence. }
  Qed.

  Theorem C12_run_pair : C12_run_pair_stmt V.
  Proof.
    intros s1 s2 W1 W2 x y x' y' Hx Hy Hx' Hy' Es Ex Ey.
    destruct (compact_tagged_order s2 W2) as (_ & M). destruct (M x' y' Hx' Hy' Es) as (M1 & M2).
    rewrite Ex, Ey in M1, M2. split; assumption.
  Qed.
  Theorem C12_seen_before_new : C12_seen_before_new_stmt V.
  Proof.
    intros s2 x' y' W Hx Hy Ex Ey. destruct (compact_tagged_order s2 W) as (C & _). apply C; auto.
    rewrite Ex. destruct (t_src V y'); cbn; [congruence|lia|lia].
  Qed.

  Theorem C12_tagged_sources : C12_tagged_sources_stmt V.
  Proof.
    intros l s H v g.
    destruct (add_all_exact _ l _ _ (wf_stream_new V) H) as (_ & _ & (Wp & Wc & Wn) & _).
    assert (O : one_new_row V (s_new (stream_new V))) by (left; split; reflexivity).
    destruct (add_all_order _ l _ _ (wf_stream_new V) O H) as (IP & IC & _).
    pose proof (wf_matrix_sorted _ _ Wp) as Sp. pose proof (wf_matrix_sorted _ _ Wc) as Sc.
    pose proof (wf_matrix_sorted _ _ Wn) as Sn.
    set (np := count (m_cells (s_prev s))). set (nc := count (m_cells (s_cur s))).
    assert (RP := retag_range FromPrev 0 _ 0 Sp). assert (RC := retag_range FromCur 0 _ np Sc).
    assert (RN := retag_range FromNew 0 _ (np + nc) Sn).
    assert (GF : forall (t : list (N * V)) w h, In w (gfilter V h t) <-> In (h, w) t).
    { intros t w h. unfold gfilter. rewrite in_map_iff. split.
      - intros ((h', w') & E & Hin). cbn in E. subst w'. apply filter_In in Hin. destruct Hin as (Hin & E).
        cbn in E. apply N.eqb_eq in E. now subst h'.
      - intros Hin. exists (h, w). split; [reflexivity|]. apply filter_In. split; [exact Hin|]. cbn. apply N.eqb_refl. }
    assert (IT : forall x, In x (compact_tagged V s) <->
       In x (retag_cells V FromPrev (m_cells (s_prev s)) 0) \/ In x (retag_cells V FromCur (m_cells (s_cur s)) np)
       \/ In x (retag_cells V FromNew (m_cells (s_new s)) (np + nc))).
    { intros x. unfold compact_tagged. rewrite !count_nonempty_eq. fold np nc. rewrite !in_app_iff. tauto. }
    assert (LP : forall w h, In (w, GPrevious h) l <-> In w (map fst (filter (is_prev_gen V h) l))).
    { intros w h. rewrite in_map_iff. split.
      - intros Hin. exists (w, GPrevious h). split; [reflexivity|]. apply filter_In. split; [exact Hin|].
        unfold is_prev_gen. cbn. apply N.eqb_refl.
      - intros ((w', g0) & E & Hin). cbn in E. subst w'. apply filter_In in Hin. destruct Hin as (Hin & E).
        unfold is_prev_gen in E. cbn in E. destruct g0 as [h'| |]; try discriminate. apply N.eqb_eq in E. now subst h'. }
    assert (LC : forall w h, In (w, GCurrent h) l <-> In w (map fst (filter (is_cur_gen V h) l))).
    { intros w h. rewrite in_map_iff. split.
      - intros Hin. exists (w, GCurrent h). split; [reflexivity|]. apply filter_In. split; [exact Hin|].
        unfold is_cur_gen. cbn. apply N.eqb_refl.
      - intros ((w', g0) & E & Hin). cbn in E. subst w'. apply filter_In in Hin. destruct Hin as (Hin & E).
        unfold is_cur_gen in E. cbn in E. destruct g0 as [|h'|]; try discriminate. apply N.eqb_eq in E. now subst h'. }
    split.
    - rewrite LP. specialize (IP g). cbn [app gfilter stream_new s_prev matrix_new matrix_tagged m_cells cells_tagged map concat filter] in IP.
      fold (gfilter V g (matrix_tagged V (s_prev s))) in IP. rewrite <- IP, GF.
      unfold matrix_tagged. rewrite <- (retag_old_in FromPrev 0 _ 0 Sp). split.
      + intros (g' & Hin). exists g'. apply IT. auto.
      + intros (g' & Hin). exists g'. apply IT in Hin. destruct Hin as [Hin|[Hin|Hin]]; [exact Hin| |]; exfalso.
        * destruct (RC _ Hin) as (A & _). discriminate A.
        * destruct (RN _ Hin) as (A & _). discriminate A.
    - rewrite LC. specialize (IC g). cbn [app gfilter stream_new s_cur matrix_new matrix_tagged m_cells cells_tagged map concat filter] in IC.
      fold (gfilter V g (matrix_tagged V (s_cur s))) in IC. rewrite <- IC, GF.
      unfold matrix_tagged. rewrite <- (retag_old_in FromCur 0 _ np Sc). split.
      + intros (g' & Hin). exists g'. apply IT. auto.
      + intros (g' & Hin). exists g'. apply IT in Hin. destruct Hin as [Hin|[Hin|Hin]]; [|exact Hin|]; exfalso.
        * destruct (RP _ Hin) as (A & _). discriminate A.
        * destruct (RN _ Hin) as (A & _). discriminate A.
  Qed.
End Compactify.

Section Cursor.
  Variable V : Type.
  Notation cells := (cells V).
  Notation matrix := (matrix V).
  Notation stream := (stream V).
  Notation ne_cells := (ne_cells V).
  Notation wfl := (wfl V).
  Notation rows_nonempty := (rows_nonempty V).

  (* ---------- the part of a matrix the cursor has passed ---------- *)
  Definition split_at (m : matrix) (k : N) : Prop :=
    exists lo hi, m_cells m = lo ++ hi /\ lenN lo = k /\ (forall j r, In (j, r) lo -> j < k).

  Lemma rows_nonempty_app (a b : cells) : rows_nonempty (a ++ b) -> rows_nonempty a /\ rows_nonempty b.
  Proof. intros H. split; intros j r Hin; eapply H; apply in_or_app; eauto. Qed.

  Lemma cells_add_above (lo hi : cells) g v : (forall j r, In (j, r) lo -> j < g) ->
    cells_add V (lo ++ hi) g v = lo ++ cells_add V hi g v.
  Proof.
    induction lo as [|[j r] lo IH]; intros B; [reflexivity|]. cbn [app cells_add].
    assert (j < g) by (eapply B; left; reflexivity).
    destruct (N.ltb_spec g j); [lia|]. destruct (N.eqb_spec g j); [lia|]. f_equal. apply IH.
    intros j' r' H'. eapply B; right; eauto.
  Qed.

  Lemma slice_split (m : matrix) k lo hi : rows_nonempty (m_cells m) -> m_cells m = lo ++ hi -> lenN lo = k ->
    matrix_slice_iter V m k = map snd hi.
  Proof.
    intros Hn E L. unfold matrix_slice_iter, nonempty_rows. change (filter (row_nonempty V) (map snd (m_cells m))) with (ne_cells (m_cells m)).
    rewrite ne_cells_id by assumption. rewrite E, map_app. apply skipN_app_exact. now rewrite lenN_map.
  Qed.

  (* an append at or above the cursor: the passed part is untouched, the pending part gains exactly v *)
  Lemma add_above_split (m m1 : matrix) k v g : wfl m -> split_at m k -> k <= g ->
    add_value_to_generation V m v g = SOk m1 ->
    split_at m1 k /\ Permutation (concat (matrix_slice_iter V m1 k)) (v :: concat (matrix_slice_iter V m k)).
  Proof.
    intros (Hn & B) (lo & hi & E & L & Bl) G A.
    pose proof (add_gen_wfl _ _ _ _ _ (conj Hn B) A) as (Hn1 & _).
    apply add_gen_cells in A. destruct A as (C & _).
    assert (C' : m_cells m1 = lo ++ cells_add V hi g v).
    { rewrite C, E. apply cells_add_above. intros j r H. specialize (Bl _ _ H). lia. }
    split.
    - exists lo, (cells_add V hi g v). auto.
    - rewrite (slice_split m1 k lo _ Hn1 C' L), (slice_split m k lo hi Hn E L). apply cells_add_perm.
  Qed.

  Lemma dense_len (m : matrix) : wfl m -> matrix_dense V m = true -> lenN (m_cells m) = m_len m.
  Proof.
    intros (Hn & _) D. unfold matrix_dense in D. apply N.eqb_eq in D. unfold nonempty_rows in D.
    change (filter (row_nonempty V) (map snd (m_cells m))) with (ne_cells (m_cells m)) in D.
    rewrite ne_cells_id, lenN_map in D by assumption. exact D.
  Qed.
  (* taking the cursor on a matrix without holes: everything is passed, nothing is pending *)
  Lemma dense_split (m : matrix) : wfl m -> matrix_dense V m = true -> split_at m (m_len m).
  Proof.
    intros W D. exists (m_cells m), []. split; [now rewrite app_nil_r|]. split; [apply dense_len; assumption|].
    destruct W as (_ & B). exact B.
  Qed.
  Lemma dense_no_pending (m : matrix) k : matrix_dense V m = true -> m_len m <= k -> matrix_slice_iter V m k = [].
  Proof.
    intros D L. unfold matrix_dense in D. apply N.eqb_eq in D. unfold matrix_slice_iter. apply skipN_all. lia.
  Qed.

  (* ---------- inversion of the cursor operations ---------- *)
  Lemma get_cursor_spec (s : stream) rc : stream_get_cursor V s = SOk rc ->
    c_prev rc = m_len (s_prev s) /\ c_cur rc = m_len (s_cur s) /\ c_new rc = m_len (s_new s).
  Proof.
    unfold stream_get_cursor, generations_count. intros H.
    apply sbind_ok in H. destruct H as (p & Hp & H). apply sbind_ok in H. destruct H as (c & Hc & H).
    apply sbind_ok in H. destruct H as (n & Hn & H). inversion H; subst; cbn.
    apply gen_idx_ok in Hp, Hc, Hn. intuition.
  Qed.

  Lemma cells_get_absent (c : cells) i : rows_nonempty c -> cells_get V c i = [] ->
    filter (fun x => negb (fst x =? i)) c = c.
  Proof.
    induction c as [|[j r] t IH]; intros Hn G; [reflexivity|]. cbn [cells_get] in G. cbn [filter fst].
    destruct (N.eqb_spec j i) as [E|NE].
    - exfalso. eapply Hn; [left; reflexivity|exact G].
    - cbn [negb]. f_equal. apply IH; [|exact G]. intros j' r' H'. eapply Hn; right; eauto.
  Qed.

  Lemma remove_last_spec (s s0 : stream) : wfl (s_new s) -> remove_last_generation_if_empty V s = SOk s0 ->
    s_prev s0 = s_prev s /\ s_cur s0 = s_cur s /\ m_cells (s_new s0) = m_cells (s_new s) /\
    m_size (s_new s0) = m_size (s_new s) /\ wfl (s_new s0) /\ m_len (s_new s0) <= m_len (s_new s).
  Proof.
    intros (Hn & B) H. unfold remove_last_generation_if_empty in H. apply sbind_ok in H. destruct H as (e & He & H).
    inversion H; subst s0; clear H. destruct e; [|repeat split; auto; apply N.le_refl].
    unfold new_last_generation_is_empty in He. unfold with_new. cbn [s_prev s_cur s_new].
    unfold new_remove_last_generation. destruct (N.eqb_spec (m_len (s_new s)) 0) as [E|NE].
    - repeat split; auto; apply N.le_refl.
    - apply sbind_ok in He. destruct He as (i & Hi & He). apply new_last_idx_spec in Hi. subst i.
      inversion He as [G]. apply is_nil_true in G. cbn [m_cells m_size m_len].
      rewrite (cells_get_absent _ _ Hn G). repeat split; auto; try lia.
      intros j r Hin. cbn [m_cells m_len] in *. specialize (B _ _ Hin).
      assert (j <> m_len (s_new s) - 1); [|lia].
      intros Ej. subst j. apply (Hn _ _ Hin).
      clear - Hin G Hn. induction (m_cells (s_new s)) as [|[j' r'] t IH]; [destruct Hin|].
      cbn [cells_get] in G. destruct (N.eqb_spec j' (m_len (s_new s) - 1)) as [E|NE].
      + exfalso. eapply Hn; [left; reflexivity|exact G].
      + destruct Hin as [E|Hin]; [inversion E; congruence|]. apply IH; auto. intros j0 r0 H0. eapply Hn; right; eauto.
  Qed.

  Lemma iter_end_spec rc (s : stream) st rc1 s1 : met_iteration_end V rc s = SOk (st, rc1, s1) ->
    st = cursor_state_of V rc s /\ exists s0, remove_last_generation_if_empty V s = SOk s0 /\
      stream_get_cursor V s0 = SOk rc1 /\ s1 = with_new V s0 (new_add_new_empty_generation V (s_new s0)).
  Proof.
    unfold met_iteration_end. intros H. apply sbind_ok in H. destruct H as (s0 & H0 & H).
    apply sbind_ok in H. destruct H as (rc' & Hc & H). inversion H; subst. split; [reflexivity|]. exists s0. auto.
  Qed.
  Lemma fold_start_spec rc (s : stream) st rc1 s1 : met_fold_start V rc s = SOk (st, rc1, s1) ->
    st = cursor_state_of V rc s /\ stream_get_cursor V s = SOk rc1 /\
    s1 = (if should_continue V st then with_new V s (new_add_new_empty_generation V (s_new s)) else s).
  Proof.
    unfold met_fold_start. intros H. apply sbind_ok in H. destruct H as (rc' & Hc & H).
    destruct (should_continue V (cursor_state_of V rc s)) eqn:E; inversion H; subst; rewrite ?E; auto.
  Qed.

  Lemma batches_from (b : list (list V)) : batches_of V (from_iterable_values V b) = b.
  Proof. destruct b; reflexivity. Qed.
  Lemma slice_iter_all (s : stream) : concat (stream_slice_iter V s (cursor_empty)) = stream_iter V s.
  Proof.
    unfold stream_slice_iter, stream_iter, matrix_slice_iter. cbn [cursor_empty c_prev c_cur c_new].
    rewrite !skipN_0, !concat_app, !(iter_ne V). reflexivity.
  Qed.

  (* ---------- the invariant ---------- *)
  Definition wfl3 (s : stream) : Prop := wfl (s_prev s) /\ wfl (s_cur s) /\ wfl (s_new s).
  Definition cursor_inv (rc : rcursor) (s : stream) : Prop :=
    wfl3 s /\ split_at (s_prev s) (c_prev rc) /\ split_at (s_cur s) (c_cur rc) /\ split_at (s_new s) (c_new rc) /\
    c_new rc <= m_len (s_new s) - 1.
  Definition pending (rc : rcursor) (s : stream) : list V := concat (stream_slice_iter V s rc).

  Lemma perm_cons_mid (v : V) a b c a' b' c' :
    (Permutation a' (v :: a) /\ b' = b /\ c' = c) \/ (a' = a /\ Permutation b' (v :: b) /\ c' = c) \/
    (a' = a /\ b' = b /\ Permutation c' (v :: c)) ->
    Permutation (a' ++ b' ++ c') (v :: a ++ b ++ c).
  Proof.
    intros [(P & -> & ->)|[(-> & P & ->)|(-> & -> & P)]].
    - change (v :: a ++ b ++ c) with ((v :: a) ++ b ++ c). now apply Permutation_app_tail.
    - eapply Permutation_trans; [|apply Permutation_sym, Permutation_middle]. apply Permutation_app_head.
      change (v :: b ++ c) with ((v :: b) ++ c). now apply Permutation_app_tail.
    - eapply Permutation_trans; [|apply Permutation_sym, Permutation_middle]. apply Permutation_app_head.
      eapply Permutation_trans; [|apply Permutation_sym, Permutation_middle]. now apply Permutation_app_head.
  Qed.

  Lemma add_step rc (s s1 : stream) v g : cursor_inv rc s -> add_above_cursor rc g = true ->
    stream_add_value V s v g = SOk s1 ->
    cursor_inv rc s1 /\ Permutation (pending rc s1) (v :: pending rc s).
  Proof.
    intros ((Wp & Wc & Wn) & Sp & Sc & Sn & Ln) Ab H.
    apply stream_add_cases in H. destruct H as (_ & k & [H|[H|H]]).
    - destruct H as (-> & A & B & C). cbn in Ab. apply N.leb_le in Ab.
      destruct (add_above_split _ _ _ _ _ Wp Sp Ab A) as (Sp1 & P).
      split.
      + unfold cursor_inv, wfl3. rewrite B, C.
        split; [split; [eapply add_gen_wfl; [exact Wp|exact A]|split; assumption]|].
        split; [exact Sp1|]. split; [exact Sc|]. split; [exact Sn|exact Ln].
      + unfold pending, stream_slice_iter. rewrite !concat_app, B, C. apply perm_cons_mid. left. auto.
    - destruct H as (-> & A & B & C). cbn in Ab. apply N.leb_le in Ab.
      destruct (add_above_split _ _ _ _ _ Wc Sc Ab A) as (Sc1 & P).
      split.
      + unfold cursor_inv, wfl3. rewrite B, C.
        split; [split; [assumption|split; [eapply add_gen_wfl; [exact Wc|exact A]|assumption]]|].
        split; [exact Sp|]. split; [exact Sc1|]. split; [exact Sn|exact Ln].
      + unfold pending, stream_slice_iter. rewrite !concat_app, B, C. apply perm_cons_mid. right. left. auto.
    - destruct H as (-> & Ek & A & B & C). subst k.
      destruct (add_above_split _ _ _ _ _ Wn Sn Ln A) as (Sn1 & P).
      split.
      + unfold cursor_inv, wfl3. rewrite B, C.
        split; [split; [assumption|split; [assumption|eapply add_gen_wfl; [exact Wn|exact A]]]|].
        split; [exact Sp|]. split; [exact Sc|]. split; [exact Sn1|].
        apply add_gen_cells in A. destruct A as (_ & _ & _ & A). lia.
      + unfold pending, stream_slice_iter. rewrite !concat_app, B, C. apply perm_cons_mid. right. right. auto.
  Qed.

  Lemma iter_end_step (s s0 : stream) rc1 : wfl3 s -> remove_last_generation_if_empty V s = SOk s0 ->
    stream_dense V s0 = true -> stream_get_cursor V s0 = SOk rc1 ->
    let s1 := with_new V s0 (new_add_new_empty_generation V (s_new s0)) in
    cursor_inv rc1 s1 /\ pending rc1 s1 = [] /\ stream_iter V s1 = stream_iter V s.
  Proof.
    intros (Wp & Wc & Wn) R D G s1.
    destruct (remove_last_spec _ _ Wn R) as (Ep & Ec & Ecells & Esz & Wn0 & Ln0).
    apply get_cursor_spec in G. destruct G as (Gp & Gc & Gn).
    unfold stream_dense in D. apply andb_prop in D. destruct D as (D & Dn). apply andb_prop in D. destruct D as (Dp & Dc).
    rewrite Ep in Dp, Gp. rewrite Ec in Dc, Gc.
    assert (Wn1 : wfl (new_add_new_empty_generation V (s_new s0))).
    { destruct Wn0 as (A & B). split; [exact A|]. cbn. intros j r H. specialize (B _ _ H). lia. }
    split; [|split].
    - unfold cursor_inv, wfl3, s1, with_new. cbn [s_prev s_cur s_new]. rewrite Ep, Ec, Gp, Gc, Gn.
      split; [split; [assumption|split; assumption]|].
      split; [apply dense_split; assumption|]. split; [apply dense_split; assumption|].
      split; [|cbn; lia].
      destruct (dense_split _ Wn0 Dn) as (lo & hi & E & L & B). exists lo, hi. cbn [new_add_new_empty_generation m_cells]. auto.
    - unfold pending, stream_slice_iter, s1, with_new. cbn [s_prev s_cur s_new]. rewrite Ep, Ec, Gp, Gc, Gn.
      rewrite (dense_no_pending _ _ Dp) by apply N.le_refl. rewrite (dense_no_pending _ _ Dc) by apply N.le_refl.
      assert (E : matrix_slice_iter V (new_add_new_empty_generation V (s_new s0)) (m_len (s_new s0)) = matrix_slice_iter V (s_new s0) (m_len (s_new s0))) by reflexivity.
      rewrite E, (dense_no_pending _ _ Dn) by apply N.le_refl. reflexivity.
    - unfold stream_iter, s1, with_new, matrix_iter. cbn [s_prev s_cur s_new new_add_new_empty_generation m_cells].
      now rewrite Ep, Ec, Ecells.
  Qed.

  Lemma handed_out_cons st sts : handed_out V (st :: sts) = concat (batches_of V st) ++ handed_out V sts.
  Proof. unfold handed_out. cbn [map concat]. now rewrite concat_app. Qed.

  Definition ends_iter (ops : list (fold_op V)) : Prop := exists ops0, ops = ops0 ++ [OIterEnd].
  Lemma ends_iter_cons op (t : list (fold_op V)) : ends_iter (op :: t) -> (t = [] /\ op = OIterEnd) \/ ends_iter t.
  Proof.
    intros (ops0 & E). destruct ops0 as [|x ops0]; cbn in E; inversion E; subst; [left; auto|right]. exists ops0. reflexivity.
  Qed.

  Lemma run_ops_inv (ops : list (fold_op V)) : forall rc s sts rc' s' handed,
    cursor_inv rc s -> ops_safe V rc s ops = true -> run_ops V rc s ops = SOk (sts, rc', s') ->
    Permutation (handed ++ pending rc s) (stream_iter V s) ->
    cursor_inv rc' s' /\ Permutation (handed ++ handed_out V sts ++ pending rc' s') (stream_iter V s') /\
    (ends_iter ops -> pending rc' s' = []).
  Proof.
    induction ops as [|[v g|] t IH]; intros rc s sts rc' s' handed Inv Safe Run P.
    - cbn in Run. inversion Run; subst. cbn [handed_out map concat app]. split; [exact Inv|]. split; [exact P|].
      intros (ops0 & E). destruct ops0; discriminate.
    - cbn [run_ops] in Run. apply sbind_ok in Run. destruct Run as (s1 & A & Run).
      cbn [ops_safe] in Safe. rewrite A in Safe. apply andb_prop in Safe. destruct Safe as (Ab & Safe).
      destruct (add_step _ _ _ _ _ Inv Ab A) as (Inv1 & Pp).
      assert (P1 : Permutation (handed ++ pending rc s1) (stream_iter V s1)).
      { eapply Permutation_trans; [apply Permutation_app_head; exact Pp|].
        eapply Permutation_trans; [apply Permutation_sym, Permutation_middle|].
        eapply Permutation_trans; [apply perm_skip; exact P|]. apply Permutation_sym. eapply stream_add_perm; eauto. }
      destruct (IH _ _ _ _ _ _ Inv1 Safe Run P1) as (I' & P' & E'). split; [exact I'|]. split; [exact P'|].
      intros En. apply ends_iter_cons in En. destruct En as [(_ & En)|En]; [discriminate|auto].
    - cbn [run_ops] in Run. apply sbind_ok in Run. destruct Run as ([[st rc1] s1] & A & Run).
      apply sbind_ok in Run. destruct Run as ([[sts' rc2] s2] & Run & Fin). inversion Fin; subst; clear Fin.
      cbn [ops_safe] in Safe. rewrite A in Safe. apply andb_prop in Safe. destruct Safe as (Dn & Safe).
      apply iter_end_spec in A. destruct A as (Est & s0 & R & G & Es1).
      rewrite R in Dn. destruct Inv as (W3 & _).
      destruct (iter_end_step _ _ _ W3 R Dn G) as (Inv1 & Pe & It). rewrite <- Es1 in *.
      assert (P1 : Permutation ((handed ++ pending rc s) ++ pending rc1 s1) (stream_iter V s1)).
      { rewrite Pe, app_nil_r, It. exact P. }
      destruct (IH _ _ _ _ _ _ Inv1 Safe Run P1) as (I' & P' & E'). split; [exact I'|]. split.
      + rewrite handed_out_cons, Est. unfold cursor_state_of. rewrite batches_from.
        fold (pending rc s). rewrite <- app_assoc in P'. rewrite <- app_assoc. exact P'.
      + intros En. apply ends_iter_cons in En. destruct En as [(Et & _)|En]; [|auto].
        subst t. cbn in Run. inversion Run; subst. exact Pe.
  Qed.

  Lemma dense_nil_len (m : matrix) : matrix_dense V m = true -> nonempty_rows V m = [] -> m_len m = 0.
  Proof. unfold matrix_dense. intros D E. rewrite E in D. apply N.eqb_eq in D. cbn in D. lia. Qed.

  Theorem C13_cursor_once : C13_cursor_once_stmt V.
  Proof.
    intros s ops sts rc s' W Hyp Run.
    assert (W3 : wfl3 s) by (destruct W as (A & B & C); split; [|split]; apply wf_matrix_wfl; assumption).
    unfold run_fold in Run. apply sbind_ok in Run. destruct Run as ([[st0 rc1] s1] & A & Run).
    apply sbind_ok in Run. destruct Run as ([[sts' rc2] s2] & Run & Fin). inversion Fin; subst; clear Fin.
    unfold cursor_hyp in Hyp. rewrite A in Hyp. apply andb_prop in Hyp. destruct Hyp as (D & Safe).
    apply fold_start_spec in A. destruct A as (Est & G & Es1).
    pose proof D as D'. unfold stream_dense in D'. apply andb_prop in D'. destruct D' as (D' & Dn).
    apply andb_prop in D'. destruct D' as (Dp & Dc).
    pose proof (get_cursor_spec _ _ G) as (Gp & Gc & Gn). destruct W3 as (Wp & Wc & Wn).
    (* state after met_fold_start *)
    assert (St : cursor_inv rc1 s1 /\ pending rc1 s1 = [] /\ stream_iter V s1 = stream_iter V s).
    { destruct (should_continue V st0) eqn:Sc.
      - subst s1. split; [|split].
        + unfold cursor_inv, wfl3, with_new. cbn [s_prev s_cur s_new]. rewrite Gp, Gc, Gn.
          split; [split; [assumption|split; [assumption|]]|].
          { destruct Wn as (X & Y). split; [exact X|]. cbn. intros j r H. specialize (Y _ _ H). lia. }
          split; [apply dense_split; assumption|]. split; [apply dense_split; assumption|]. split; [|cbn; lia].
          destruct (dense_split _ Wn Dn) as (lo & hi & E & L & B). exists lo, hi. cbn [new_add_new_empty_generation m_cells]. auto.
        + unfold pending, stream_slice_iter, with_new. cbn [s_prev s_cur s_new]. rewrite Gp, Gc, Gn.
          rewrite (dense_no_pending _ _ Dp) by apply N.le_refl. rewrite (dense_no_pending _ _ Dc) by apply N.le_refl.
          assert (E : matrix_slice_iter V (new_add_new_empty_generation V (s_new s)) (m_len (s_new s)) = matrix_slice_iter V (s_new s) (m_len (s_new s))) by reflexivity.
          rewrite E, (dense_no_pending _ _ Dn) by apply N.le_refl. reflexivity.
        + reflexivity.
      - subst s1. split; [|split; [|reflexivity]].
        + unfold cursor_inv, wfl3. rewrite Gp, Gc, Gn. split; [split; [assumption|split; assumption]|].
          split; [apply dense_split; assumption|]. split; [apply dense_split; assumption|].
          split; [apply dense_split; assumption|].
          (* Exhausted: the stream has no value, hence (no holes) no row at all *)
          assert (En : nonempty_rows V (s_new s) = []).
          { rewrite Est in Sc. unfold cursor_state_of, from_iterable_values in Sc.
            destruct (is_nil (stream_slice_iter V s (rcursor_new))) eqn:Nil; [|discriminate].
            apply is_nil_true in Nil. unfold stream_slice_iter, matrix_slice_iter in Nil.
            cbn [rcursor_new cursor_empty c_prev c_cur c_new] in Nil. rewrite !skipN_0 in Nil.
            apply app_eq_nil in Nil. destruct Nil as (_ & Nil). apply app_eq_nil in Nil. tauto. }
          rewrite (dense_nil_len _ Dn En). cbn. lia.
        + unfold pending, stream_slice_iter. rewrite Gp, Gc, Gn.
          rewrite (dense_no_pending _ _ Dp), (dense_no_pending _ _ Dc), (dense_no_pending _ _ Dn) by apply N.le_refl.
          reflexivity. }
    destruct St as (Inv1 & Pe & It).
    assert (P0 : Permutation (concat (batches_of V st0) ++ pending rc1 s1) (stream_iter V s1)).
    { rewrite Pe, app_nil_r, It, Est. unfold cursor_state_of. rewrite batches_from. unfold rcursor_new.
      rewrite slice_iter_all. apply Permutation_refl. }
    destruct (run_ops_inv _ _ _ _ _ _ _ Inv1 Safe Run P0) as (I' & P' & E').
    split.
    - rewrite handed_out_cons. rewrite <- app_assoc. exact P'.
    - intros [En|En].
      + subst ops. cbn in Run. inversion Run; subst.
        change (handed_out V []) with (@nil V) in P'. cbn [app] in P'. rewrite Pe, app_nil_r in P'.
        rewrite handed_out_cons. change (handed_out V []) with (@nil V). rewrite app_nil_r. exact P'.
      + rewrite (E' En), app_nil_r in P'. rewrite handed_out_cons. exact P'.
  Qed.
End Cursor.

Section Termination.
  Variable V : Type.
  Notation cells := (cells V).
  Notation matrix := (matrix V).
  Notation stream := (stream V).

  (* ---------- termination ---------- *)
  Lemma sorted_len lo (c : cells) n : cells_sorted V lo c -> cells_below V c n -> lo <= n -> lo + lenN c <= n.
  Proof.
    revert lo. induction c as [|[j r] t IH]; intros lo S B L; [rewrite lenN_nil; lia|].
    cbn [cells_sorted] in S. destruct S as (S1 & S2 & S3). rewrite lenN_cons.
    assert (j < n) by (eapply B; left; reflexivity).
    assert (j + 1 + lenN t <= n); [|lia]. apply IH; [exact S3| |lia]. intros j' r' H'. eapply B; right; eauto.
  Qed.
  Lemma wf_ne_len (m : matrix) : wf_matrix V m -> lenN (nonempty_rows V m) <= m_len m.
  Proof.
    intros W. pose proof (wf_matrix_wfl _ _ W) as (Hn & _). destruct W as (S & B & _).
    unfold nonempty_rows. change (filter (row_nonempty V) (map snd (m_cells m))) with (ne_cells V (m_cells m)).
    rewrite ne_cells_id, lenN_map by assumption. pose proof (sorted_len 0 _ _ S B). lia.
  Qed.
  Lemma wf_no_pending (m : matrix) k : wf_matrix V m -> m_len m <= k -> matrix_slice_iter V m k = [].
  Proof. intros W L. unfold matrix_slice_iter. apply skipN_all. pose proof (wf_ne_len _ W). lia. Qed.

  Lemma wf_push (m : matrix) : wf_matrix V m -> wf_matrix V (new_add_new_empty_generation V m).
  Proof.
    intros (S & B & Z). split; [exact S|]. split; [|exact Z]. cbn. intros j r H. specialize (B _ _ H). lia.
  Qed.
  Lemma wf_remove_last (s s0 : stream) : wf_stream V s -> remove_last_generation_if_empty V s = SOk s0 ->
    wf_stream V s0 /\ stream_size V s0 = stream_size V s /\ nonempty_rows V (s_new s0) = nonempty_rows V (s_new s).
  Proof.
    intros (Wp & Wc & Wn) R.
    destruct (remove_last_spec _ _ _ (wf_matrix_wfl _ _ Wn) R) as (Ep & Ec & Ecells & Esz & (_ & B0) & _).
    split; [|split].
    - unfold wf_stream. rewrite Ep, Ec. split; [assumption|]. split; [assumption|].
      destruct Wn as (S & _ & Z). unfold wf_matrix, matrix_iter. rewrite Ecells in B0 |- *. rewrite Esz.
      split; [exact S|split; [exact B0|exact Z]].
    - unfold stream_size, matrix_get_size. now rewrite Ep, Ec, Esz.
    - unfold nonempty_rows. now rewrite Ecells.
  Qed.

  Lemma should_continue_from (b : list (list V)) : should_continue V (from_iterable_values V b) = negb (is_nil b).
  Proof. destruct b; reflexivity. Qed.
  Lemma count_continue_cons st sts :
    count_continue V (st :: sts) = (if should_continue V st then 1 else 0) + count_continue V sts.
  Proof. unfold count_continue. cbn [filter]. destruct (should_continue V st); [rewrite lenN_cons|]; lia. Qed.

  Lemma cursor_taken_no_pending (s0 : stream) rc1 : wf_stream V s0 -> stream_get_cursor V s0 = SOk rc1 ->
    forall n', nonempty_rows V n' = nonempty_rows V (s_new s0) ->
    stream_slice_iter V (with_new V s0 n') rc1 = [].
  Proof.
    intros (Wp & Wc & Wn) G n' En. apply get_cursor_spec in G. destruct G as (Gp & Gc & Gn).
    unfold stream_slice_iter, with_new. cbn [s_prev s_cur s_new].
    rewrite (wf_no_pending _ _ Wp), (wf_no_pending _ _ Wc) by lia.
    unfold matrix_slice_iter. rewrite En. fold (matrix_slice_iter V (s_new s0) (c_new rc1)).
    rewrite (wf_no_pending _ _ Wn) by lia. reflexivity.
  Qed.

  Lemma run_ops_count (ops : list (fold_op V)) : forall rc s sts rc' s',
    wf_stream V s -> run_ops V rc s ops = SOk (sts, rc', s') ->
    count_continue V sts + stream_size V s <= stream_size V s' + (if is_nil (stream_slice_iter V s rc) then 0 else 1) /\
    stream_size V s <= stream_size V s' /\ (stream_size V s < stream_size V s' -> stream_size V s' < stream_max_size).
  Proof.
    induction ops as [|[v g|] t IH]; intros rc s sts rc' s' W Run.
    - cbn in Run. inversion Run; subst. unfold count_continue. cbn. destruct (is_nil _); lia.
    - cbn [run_ops] in Run. apply sbind_ok in Run. destruct Run as (s1 & A & Run).
      pose proof (stream_add_wf _ _ _ _ _ W A) as W1. pose proof (stream_add_size _ _ _ _ _ A) as Sz.
      pose proof (stream_add_cases _ _ _ _ _ A) as (Lim & _).
      destruct (IH _ _ _ _ _ W1 Run) as (C & M & L).
      split; [|split].
      + destruct (is_nil (stream_slice_iter V s1 rc)); destruct (is_nil (stream_slice_iter V s rc)); lia.
      + lia.
      + intros _. destruct (N.eq_dec (stream_size V s1) (stream_size V s')) as [E|NE]; [lia|apply L; lia].
    - cbn [run_ops] in Run. apply sbind_ok in Run. destruct Run as ([[st rc1] s1] & A & Run).
      apply sbind_ok in Run. destruct Run as ([[sts' rc2] s2] & Run & Fin). inversion Fin; subst; clear Fin.
      apply iter_end_spec in A. destruct A as (Est & s0 & R & G & Es1).
      destruct (wf_remove_last _ _ W R) as (W0 & Sz0 & _).
      assert (W1 : wf_stream V s1).
      { subst s1. destruct W0 as (A & B & C). split; [exact A|]. split; [exact B|]. apply wf_push. exact C. }
      assert (Sz1 : stream_size V s1 = stream_size V s) by (subst s1; rewrite <- Sz0; reflexivity).
      assert (Np : stream_slice_iter V s1 rc1 = []).
      { subst s1. apply cursor_taken_no_pending; auto. }
      destruct (IH _ _ _ _ _ W1 Run) as (C & M & L). rewrite Np in C. cbn [is_nil] in C.
      rewrite count_continue_cons, Est. unfold cursor_state_of. rewrite should_continue_from.
      rewrite Sz1 in *. split; [|split; [lia|exact L]].
      destruct (is_nil (stream_slice_iter V s rc)); cbn [negb]; lia.
  Qed.

  Theorem C13_cursor_terminates : C13_cursor_terminates_stmt V.
  Proof.
    intros s ops sts rc s' W Run.
    unfold run_fold in Run. apply sbind_ok in Run. destruct Run as ([[st0 rc1] s1] & A & Run).
    apply sbind_ok in Run. destruct Run as ([[sts' rc2] s2] & Run & Fin). inversion Fin; subst; clear Fin.
    apply fold_start_spec in A. destruct A as (Est & G & Es1).
    assert (W1 : wf_stream V s1).
    { subst s1. destruct (should_continue V st0); [|exact W]. destruct W as (A & B & C).
      split; [exact A|]. split; [exact B|]. apply wf_push. exact C. }
    assert (Np : stream_slice_iter V s1 rc1 = []).
    { subst s1. destruct (should_continue V st0).
      - apply cursor_taken_no_pending; auto.
      - replace s with (with_new V s (s_new s)) at 1 by (destruct s; reflexivity).
        apply cursor_taken_no_pending; auto. }
    destruct (run_ops_count _ _ _ _ _ _ W1 Run) as (C & M & L). rewrite Np in C. cbn [is_nil] in C.
    rewrite count_continue_cons.
    assert (stream_max_size = 1024) by reflexivity.
    destruct (N.eq_dec (stream_size V s1) (stream_size V s')) as [E|NE].
    - destruct (should_continue V st0); lia.
    - assert (stream_size V s' < stream_max_size) by (apply L; lia). destruct (should_continue V st0); lia.
  Qed.

  (* ---------- Streams ---------- *)
  Lemma map_get_insert (m : streams V) name d : map_get V (map_insert V m name d) name = Some d.
  Proof.
    induction m as [|[k d0] t IH]; cbn [map_insert map_get]; [now rewrite String.eqb_refl|].
    destruct (String.eqb k name) eqn:E; cbn [map_get]; rewrite E; auto.
  Qed.
  Lemma find_update_rev (ds : list (descriptor V)) p d s' : find_closest_rev V ds p = Some d ->
    option_map d_stream (find_closest_rev V (update_closest_rev V ds p s') p) = Some s'.
  Proof.
    induction ds as [|d0 t IH]; cbn [find_closest_rev update_closest_rev]; [discriminate|].
    destruct (contains_position (d_span d0) p) eqn:E; intros H.
    - cbn [find_closest_rev d_span]. rewrite E. reflexivity.
    - cbn [find_closest_rev]. rewrite E. auto.
  Qed.
  Theorem C13_streams_add_get : C13_streams_add_get_stmt V.
  Proof.
    intros m name v g p m' P0 P1 H. unfold streams_add_stream_value in H.
    destruct (streams_get V m name p) as [s|] eqn:G.
    - apply sbind_ok in H. destruct H as (s1 & A & H). inversion H; subst m'. exists s1. split; [|exact A].
      unfold streams_get in G |- *. unfold streams_set. destruct (map_get V m name) as [ds|] eqn:Mg; [|discriminate].
      rewrite map_get_insert. unfold find_closest, update_closest in *. rewrite rev_involutive.
      destruct (find_closest_rev V (rev ds) p) as [d|] eqn:F; [|discriminate].
      eapply find_update_rev; eauto.
    - apply sbind_ok in H. destruct H as (s1 & A & H). inversion H; subst m'. exists s1. split; [|exact A].
      unfold streams_get. rewrite map_get_insert. unfold find_closest. cbn [rev app find_closest_rev descriptor_global d_span].
      unfold contains_position. cbn [sp_left sp_right].
      destruct (N.ltb_spec 0 p); [|lia]. destruct (N.ltb_spec p usize_max); [|lia]. reflexivity.
  Qed.
End Termination.

Section Padded.
  Variable V : Type.
  Notation cells := (cells V).
  Notation matrix := (matrix V).

  (* ---------- the sparse matrix is the padded vector of the Rust code ---------- *)
  Lemma pad_rows_length (c : cells) i n : length (pad_rows V c i n) = n.
  Proof. revert i. induction n as [|n IH]; intros i; cbn; [reflexivity|now rewrite IH]. Qed.
  Lemma matrix_rows_length (m : matrix) : lenN (matrix_rows V m) = m_len m.
  Proof. unfold matrix_rows, lenN. rewrite pad_rows_length. apply N2Nat.id. Qed.
  Lemma pad_rows_nth (c : cells) i n k : (k < n)%nat ->
    nth_error (pad_rows V c i n) k = Some (cells_get V c (i + N.of_nat k)).
  Proof.
    revert i k. induction n as [|n IH]; intros i k L; [lia|]. destruct k as [|k]; cbn [pad_rows nth_error].
    - now rewrite N.add_0_r.
    - rewrite IH by lia. f_equal. f_equal. lia.
  Qed.
  (* row k of the vector *)
  Lemma matrix_rows_nth (m : matrix) k : N.of_nat k < m_len m ->
    nth_error (matrix_rows V m) k = Some (cells_get V (m_cells m) (N.of_nat k)).
  Proof. intros L. unfold matrix_rows. rewrite pad_rows_nth by lia. reflexivity. Qed.

  Lemma cells_get_lt lo (c : cells) i : cells_sorted V lo c -> i < lo -> cells_get V c i = [].
  Proof.
    revert lo. induction c as [|[j r] t IH]; intros lo S L; [reflexivity|]. cbn [cells_sorted] in S.
    destruct S as (S1 & _ & S3). cbn [cells_get]. destruct (N.eqb_spec j i); [lia|]. apply (IH _ S3). lia.
  Qed.
  (* `self.values[g].push(v)` after the resize: row g gains v at its end, every other row is unchanged *)
  Lemma cells_get_add lo (c : cells) g v i : cells_sorted V lo c ->
    cells_get V (cells_add V c g v) i = if i =? g then cells_get V c g ++ [v] else cells_get V c i.
  Proof.
    revert lo. induction c as [|[j r] t IH]; intros lo S; cbn [cells_add].
    - cbn [cells_get]. rewrite N.eqb_sym. destruct (i =? g); reflexivity.
    - cbn [cells_sorted] in S. destruct S as (S1 & S2 & S3).
      destruct (N.ltb_spec g j) as [Lt|Ge].
      + cbn [cells_get]. rewrite (N.eqb_sym g i). destruct (N.eqb_spec i g) as [E|NE].
        * subst i. destruct (N.eqb_spec j g); [lia|]. rewrite (cells_get_lt (j + 1) t g S3) by lia. reflexivity.
        * reflexivity.
      + destruct (N.eqb_spec g j) as [E|NE].
        * subst j. cbn [cells_get]. destruct (N.eqb_spec g i) as [E|NE]; [subst i; rewrite !N.eqb_refl; reflexivity|].
          destruct (N.eqb_spec i g); [congruence|]. reflexivity.
        * cbn [cells_get]. destruct (N.eqb_spec j i) as [E|NE'].
          -- subst i. destruct (N.eqb_spec j g); [congruence|reflexivity].
          -- rewrite (IH _ S3). destruct (N.eqb_spec j g); [congruence|reflexivity].
  Qed.

  Lemma pad_rows_skip_head j r (t : cells) i n : j < i -> pad_rows V ((j, r) :: t) i n = pad_rows V t i n.
  Proof.
    revert i. induction n as [|n IH]; intros i L; [reflexivity|]. cbn [pad_rows cells_get].
    destruct (N.eqb_spec j i); [lia|]. f_equal. apply IH. lia.
  Qed.
  Lemma pad_rows_sorted n : forall lo (c : cells), cells_sorted V lo c -> cells_below V c (lo + N.of_nat n) ->
    filter (row_nonempty V) (pad_rows V c lo n) = map snd c.
  Proof.
    induction n as [|n IH]; intros lo c S B.
    - destruct c as [|[j r] t]; [reflexivity|]. cbn [cells_sorted] in S. destruct S as (S1 & _).
      assert (j < lo + N.of_nat 0) by (eapply B; left; reflexivity). lia.
    - cbn [pad_rows]. destruct c as [|[j r] t].
      + cbn [cells_get filter row_nonempty is_nil negb]. apply (IH (lo + 1) []); [exact I|intros ? ? []].
      + cbn [cells_sorted] in S. destruct S as (S1 & S2 & S3). cbn [cells_get].
        destruct (N.eqb_spec j lo) as [E|NE].
        * subst j. cbn [filter]. destruct r as [|x r]; [congruence|]. cbn [row_nonempty is_nil negb map snd]. f_equal.
          rewrite pad_rows_skip_head by lia. apply IH; [exact S3|].
          intros j' r' H'. assert (j' < lo + N.of_nat (S n)) by (eapply B; right; eauto). lia.
        * rewrite (cells_get_lt (j + 1) t lo S3) by lia. cbn [filter row_nonempty is_nil negb].
          apply (IH (lo + 1) ((j, r) :: t)).
          -- cbn [cells_sorted]. split; [lia|]. split; assumption.
          -- intros j' r' H'. assert (j' < lo + N.of_nat (S n)) by (eapply B; eauto). lia.
  Qed.
  (* slice_iter's filter and iter, on the padded vector *)
  Lemma matrix_rows_nonempty (m : matrix) : wf_matrix V m ->
    filter (row_nonempty V) (matrix_rows V m) = nonempty_rows V m.
  Proof.
    intros W. pose proof (wf_matrix_wfl _ _ W) as (Hn & _). destruct W as (S & B & _).
    unfold matrix_rows. rewrite (pad_rows_sorted _ 0 _ S).
    - unfold nonempty_rows. symmetry. apply (ne_cells_id V). exact Hn.
    - rewrite N2Nat.id. exact B.
  Qed.
  Lemma matrix_rows_iter (m : matrix) : wf_matrix V m -> concat (matrix_rows V m) = matrix_iter V m.
  Proof.
    intros W. rewrite (iter_ne V), <- (matrix_rows_nonempty m W). unfold row_nonempty.
    symmetry. apply concat_filter_nonempty.
  Qed.
  (* remove_empty_generations: the vector becomes the list of its non-empty rows *)
  Lemma pad_rows_renumber (rows : list (list V)) i : pad_rows V (renumber V i rows) i (length rows) = rows.
  Proof.
    revert i. induction rows as [|r t IH]; intros i; [reflexivity|]. cbn [renumber length pad_rows cells_get].
    rewrite N.eqb_refl. f_equal. rewrite pad_rows_skip_head by lia. apply IH.
  Qed.
  Lemma matrix_rows_remove_empty (m : matrix) :
    matrix_rows V (remove_empty_generations V m) = nonempty_rows V m.
  Proof.
    unfold matrix_rows, remove_empty_generations. cbn [m_len m_cells]. unfold lenN. rewrite Nat2N.id.
    apply pad_rows_renumber.
  Qed.
End Padded.

(* ---------- refutation witnesses (values are numbers) ---------- *)
Definition mk_stream (l : list (N * generation)) : stream N :=
  match add_all N (stream_new N) l with SOk s => s | _ => stream_new N end.
Definition never_handed (sts : list (cursor_state N)) (s : stream N) (v : N) : Prop :=
  In v (stream_iter N s) /\ ~ In v (handed_out N sts).

(* (a) DESIGN 7-11: previous = [[1],[],[2]]; the value 3 appended to the hole (generation 1, below the
   cursor 3) is never handed out *)
Lemma cursor_refuted :
  exists (s : stream N) ops sts rc s', wf_stream N s /\ ends_with_iter_end N ops /\ cursor_hyp N s ops = false /\
    run_fold N s ops = SOk (sts, rc, s') /\ last sts Exhausted = Exhausted /\ exists v, never_handed sts s' v.
Proof.
  exists (mk_stream [(1, GPrevious 0); (2, GPrevious 2)]), [OAdd 3 (GPrevious 1); OIterEnd].
  eexists. eexists. eexists.
  split; [|split; [|split; [|split; [vm_compute; reflexivity|split; [reflexivity|]]]]].
  - vm_compute. repeat split; try discriminate; try lia; intros j r H;
      repeat (destruct H as [H|H]; [inversion H; subst; reflexivity|]); destruct H.
  - right. exists [OAdd 3 (GPrevious 1)]. reflexivity.
  - vm_compute. reflexivity.
  - exists 3. split; vm_compute; [tauto|]. intros [H|[H|H]]; try discriminate; exact H.
Qed.

Lemma wf_mk_check (s : stream N) :
  (forall m, m = s_prev s \/ m = s_cur s \/ m = s_new s ->
     cells_sorted N 0 (m_cells m) /\ cells_below N (m_cells m) (m_len m) /\ m_size m = lenN (matrix_iter N m)) ->
  wf_stream N s.
Proof. intros H. split; [|split]; apply H; auto. Qed.

(* (b) a hole that exists when the cursor is taken is enough: previous = [[1],[],[2]], the append goes
   ABOVE the cursor (generation 3 >= cursor 3) and is still lost, because slice_iter skips 3 non-empty rows *)
Lemma cursor_refuted_hole_above :
  exists (s : stream N) ops sts rc s', wf_stream N s /\ ends_with_iter_end N ops /\ cursor_hyp N s ops = false /\
    run_fold N s ops = SOk (sts, rc, s') /\ last sts Exhausted = Exhausted /\ exists v, never_handed sts s' v.
Proof.
  exists (mk_stream [(1, GPrevious 0); (2, GPrevious 2)]), [OAdd 3 (GPrevious 3); OIterEnd].
  eexists. eexists. eexists.
  split; [|split; [|split; [|split; [vm_compute; reflexivity|split; [reflexivity|]]]]].
  - vm_compute. repeat split; try discriminate; try lia; intros j r H;
      repeat (destruct H as [H|H]; [inversion H; subst; reflexivity|]); destruct H.
  - right. exists [OAdd 3 (GPrevious 3)]. reflexivity.
  - vm_compute. reflexivity.
  - exists 3. split; vm_compute; [tauto|]. intros [H|[H|H]]; try discriminate; exact H.
Qed.

(* (c) two folds over one stream, only `new` appends (what `ap`/`call` do on the executing peer):
   the first fold (no append at all) leaves a trailing empty `new` generation; in the second fold the
   value 7 appended by the body of the first iteration is never handed out *)
Lemma cursor_refuted_second_fold :
  exists (s : stream N) ops1 sts1 rc1 s_mid ops2 sts2 rc2 s',
    wf_stream N s /\ cursor_hyp N s ops1 = true /\ run_fold N s ops1 = SOk (sts1, rc1, s_mid) /\
    last sts1 Exhausted = Exhausted /\
    wf_stream N s_mid /\ (forall v g, In (OAdd v g) ops2 -> g = GNew) /\ ends_with_iter_end N ops2 /\
    cursor_hyp N s_mid ops2 = false /\ stream_dense N s_mid = false /\
    run_fold N s_mid ops2 = SOk (sts2, rc2, s') /\ last sts2 Exhausted = Exhausted /\
    exists v, never_handed sts2 s' v.
Proof.
  exists (mk_stream [(1, GCurrent 0)]), [OIterEnd]. eexists. eexists. eexists.
  exists [OAdd 7 GNew; OIterEnd]. eexists. eexists. eexists.
  split; [|split; [reflexivity|split; [vm_compute; reflexivity|split; [reflexivity|split;
    [|split; [|split; [|split; [reflexivity|split; [reflexivity|split; [vm_compute; reflexivity|split; [reflexivity|]]]]]]]]]]].
  - vm_compute. repeat split; try discriminate; try lia; intros j r H;
      repeat (destruct H as [H|H]; [inversion H; subst; reflexivity|]); destruct H.
  - vm_compute. repeat split; try discriminate; try lia; intros j r H;
      repeat (destruct H as [H|H]; [inversion H; subst; reflexivity|]); destruct H.
  - intros v g [H|[H|[]]]; inversion H; reflexivity.
  - right. exists [OAdd 7 GNew]. reflexivity.
  - exists 7. split; vm_compute; [tauto|]. intros [H|H]; try discriminate; exact H.
Qed.

Theorem C13_cursor_once_full_refuted : ~ C13_cursor_once_full N.
Proof.
  intros F. destruct cursor_refuted as (s & ops & sts & rc & s' & W & E & _ & R & _ & v & Hin & Hout).
  apply Hout. eapply Permutation_in; [apply Permutation_sym; exact (F _ _ _ _ _ W E R)|exact Hin].
Qed.
