(* Proofs about model/Sig.v (C15): string order and sorting, count-based multisets, association maps and
   iteration orders, the order-free descriptions of DataVerifier::{new, verify, merge}, the C15 theorems. *)
From Coq Require Import Lia Permutation.
From Aqua Require Import Base RunTop Sig.
Open Scope N_scope.


Lemma ascii_compare_eq a b : Ascii.compare a b = Eq -> a = b.
Proof. apply Ascii.compare_eq_iff. Qed.

Lemma string_compare_trans_le a : forall b c,
  String.compare a b <> Gt -> String.compare b c <> Gt -> String.compare a c <> Gt.
Proof.
  induction a as [|x a IH]; intros [|y b] [|z c]; cbn; try congruence.
  unfold Ascii.compare.
  destruct (N.compare_spec (N_of_ascii x) (N_of_ascii y)) as [Exy|Lxy|Gxy];
  destruct (N.compare_spec (N_of_ascii y) (N_of_ascii z)) as [Eyz|Lyz|Gyz];
  destruct (N.compare_spec (N_of_ascii x) (N_of_ascii z)) as [Exz|Lxz|Gxz];
  try congruence; try lia; intros H1 H2; try (exfalso; lia).
  apply (IH b c H1 H2).
Qed.

Lemma cid_leb_trans a b c : cid_leb a b = true -> cid_leb b c = true -> cid_leb a c = true.
Proof.
  unfold cid_leb, String.leb. intros H1 H2.
  pose proof (string_compare_trans_le a b c) as T.
  destruct (String.compare a b) eqn:E1; try discriminate;
  destruct (String.compare b c) eqn:E2; try discriminate;
  destruct (String.compare a c) eqn:E3; try reflexivity; exfalso; apply T; congruence.
Qed.


Lemma cid_leb_total a b : cid_leb a b = true \/ cid_leb b a = true.
Proof. apply String.leb_total. Qed.
Lemma cid_leb_antisym a b : cid_leb a b = true -> cid_leb b a = true -> a = b.
Proof. apply String.leb_antisym. Qed.

(* ---------------- counting ---------------- *)
Lemma count_app c a b : count c (a ++ b) = count c a + count c b.
Proof. induction a as [|x a IH]; cbn [count app]; [reflexivity|]. rewrite IH. lia. Qed.

Lemma lenN_app a b : lenN (a ++ b) = lenN a + lenN b.
Proof. induction a as [|x a IH]; cbn [lenN app]; [reflexivity|]. rewrite IH. lia. Qed.

Lemma count_pos_in c l : 0 < count c l <-> In c l.
Proof.
  induction l as [|x l IH]; cbn [count In]; [split; [lia|tauto]|].
  destruct (String.eqb_spec c x) as [->|Hn].
  - split; [auto|lia].
  - rewrite N.add_0_l, IH. split; [auto|]. intros [H|H]; [congruence|exact H].
Qed.

Lemma count_le_len c l : count c l <= lenN l.
Proof. induction l as [|x l IH]; cbn [count lenN]; [lia|]. destruct (String.eqb c x); lia. Qed.

Lemma count_insert_sorted c x l : count c (insert_sorted x l) = count c (x :: l).
Proof.
  induction l as [|y l IH]; cbn [insert_sorted]; [reflexivity|].
  destruct (cid_leb x y); [reflexivity|]. cbn [count] in *. rewrite IH. lia.
Qed.
Lemma count_sort c l : count c (sort_cids l) = count c l.
Proof.
  induction l as [|x l IH]; cbn [sort_cids]; [reflexivity|].
  rewrite count_insert_sorted. cbn [count]. rewrite IH. reflexivity.
Qed.
Lemma lenN_insert_sorted x l : lenN (insert_sorted x l) = N.succ (lenN l).
Proof.
  induction l as [|y l IH]; cbn [insert_sorted]; [reflexivity|].
  destruct (cid_leb x y); cbn [lenN]; [reflexivity|]. rewrite IH. reflexivity.
Qed.
Lemma lenN_sort l : lenN (sort_cids l) = lenN l.
Proof.
  induction l as [|x l IH]; cbn [sort_cids]; [reflexivity|].
  rewrite lenN_insert_sorted. cbn [lenN]. rewrite IH. reflexivity.
Qed.

(* ---------------- sortedness and canonicity ---------------- *)
Fixpoint sorted (l : list string) : Prop :=
  match l with
  | [] => True
  | x :: r => (forall y, In y r -> cid_leb x y = true) /\ sorted r
  end.

Lemma in_insert_sorted y x l : In y (insert_sorted x l) -> y = x \/ In y l.
Proof.
  induction l as [|z l IH]; cbn [insert_sorted].
  - intros [H|[]]; auto.
  - destruct (cid_leb x z).
    + intros [H|H]; auto.
    + intros [H|H]; [right; left; exact H|]. destruct (IH H) as [H'|H']; [auto|right; right; exact H'].
Qed.

Lemma insert_sorted_sorted x l : sorted l -> sorted (insert_sorted x l).
Proof.
  induction l as [|z l IH]; cbn [insert_sorted sorted]; [intros _; split; [intros y []|exact I]|].
  intros [Hz Hs]. destruct (cid_leb x z) eqn:E; cbn [sorted].
  - split; [|split; assumption].
    intros y [<-|Hy]; [exact E|]. apply (cid_leb_trans x z y E). apply Hz, Hy.
  - split; [|apply IH, Hs].
    intros y Hy. destruct (in_insert_sorted _ _ _ Hy) as [->|Hy'].
    + destruct (cid_leb_total x z) as [H|H]; [congruence|exact H].
    + apply Hz, Hy'.
Qed.
Lemma sort_sorted l : sorted (sort_cids l).
Proof. induction l as [|x l IH]; cbn [sort_cids]; [exact I|]. apply insert_sorted_sorted, IH. Qed.

Lemma sorted_meq_eq a : forall b, sorted a -> sorted b -> meq a b -> a = b.
Proof.
  induction a as [|x a IH]; intros [|y b] Sa Sb E.
  - reflexivity.
  - exfalso. specialize (E y). cbn [count] in E. rewrite String.eqb_refl in E. lia.
  - exfalso. specialize (E x). cbn [count] in E. rewrite String.eqb_refl in E. lia.
  - destruct Sa as [Hx Sa], Sb as [Hy Sb].
    assert (x = y) as ->.
    { assert (In x (y :: b)) as Hin.
      { apply count_pos_in. rewrite <- (E x). cbn [count]. rewrite String.eqb_refl. lia. }
      assert (In y (x :: a)) as Hin'.
      { apply count_pos_in. rewrite (E y). cbn [count]. rewrite String.eqb_refl. lia. }
      destruct Hin as [->|Hin]; [reflexivity|]. destruct Hin' as [->|Hin']; [reflexivity|].
      apply cid_leb_antisym; [apply Hx, Hin'|apply Hy, Hin]. }
    f_equal. apply IH; [exact Sa|exact Sb|].
    intros c. specialize (E c). cbn [count] in E. lia.
Qed.

Lemma sort_canonical a b : meq a b -> sort_cids a = sort_cids b.
Proof.
  intros E. apply sorted_meq_eq; [apply sort_sorted|apply sort_sorted|].
  intros c. rewrite !count_sort. apply E.
Qed.
Lemma sorted_sort_id l : sorted l -> sort_cids l = l.
Proof. intros S. apply sorted_meq_eq; [apply sort_sorted|exact S|]. intros c. apply count_sort. Qed.
Lemma sort_idem l : sort_cids (sort_cids l) = sort_cids l.
Proof. apply sorted_sort_id, sort_sorted. Qed.

(* ---------------- multiset inclusion and sizes ---------------- *)
Fixpoint remove_one (x : string) (l : list string) : list string :=
  match l with
  | [] => []
  | y :: r => if String.eqb x y then r else y :: remove_one x r
  end.
Lemma count_remove_one c x l : In x l ->
  count c (remove_one x l) + (if String.eqb c x then 1 else 0) = count c l.
Proof.
  induction l as [|y l IH]; cbn [In remove_one count]; [tauto|].
  intros Hin. destruct (String.eqb_spec x y) as [->|Hn].
  - lia.
  - destruct Hin as [H|Hin]; [congruence|]. cbn [count]. specialize (IH Hin). lia.
Qed.
Lemma lenN_remove_one x l : In x l -> N.succ (lenN (remove_one x l)) = lenN l.
Proof.
  induction l as [|y l IH]; cbn [In remove_one lenN]; [tauto|].
  intros Hin. destruct (String.eqb_spec x y) as [->|Hn]; [reflexivity|].
  destruct Hin as [H|Hin]; [congruence|]. cbn [lenN]. rewrite (IH Hin). reflexivity.
Qed.

Lemma msub_cons_remove x a b : msub (x :: a) b -> In x b /\ msub a (remove_one x b).
Proof.
  intros H.
  assert (In x b) as Hin.
  { apply count_pos_in. specialize (H x). cbn [count] in H. rewrite String.eqb_refl in H. lia. }
  split; [exact Hin|]. intros c. specialize (H c). cbn [count] in H.
  pose proof (count_remove_one c x b Hin). lia.
Qed.

Lemma msub_len a : forall b, msub a b -> lenN a <= lenN b.
Proof.
  induction a as [|x a IH]; intros b H; cbn [lenN]; [lia|].
  destruct (msub_cons_remove _ _ _ H) as [Hin H'].
  specialize (IH _ H'). rewrite <- (lenN_remove_one x b Hin). lia.
Qed.

Lemma msub_len_eq a : forall b, msub a b -> lenN a = lenN b -> msub b a.
Proof.
  induction a as [|x a IH]; intros b H L; cbn [lenN] in L.
  - destruct b; [intros c; lia|cbn [lenN] in L; lia].
  - destruct (msub_cons_remove _ _ _ H) as [Hin H'].
    assert (lenN a = lenN (remove_one x b)) as L' by (pose proof (lenN_remove_one x b Hin); lia).
    specialize (IH _ H' L'). intros c. specialize (IH c).
    pose proof (count_remove_one c x b Hin). cbn [count]. lia.
Qed.

Lemma msub_refl a : msub a a. Proof. intros c. lia. Qed.
Lemma msub_antisym a b : msub a b -> msub b a -> meq a b.
Proof. intros H1 H2 c. specialize (H1 c). specialize (H2 c). lia. Qed.

(* the boolean inclusion test of the oracles *)
Lemma msubb_spec a b : msubb a b = true <-> msub a b.
Proof.
  unfold msubb. rewrite forallb_forall. split.
  - intros H c. destruct (N.eq_dec (count c a) 0) as [E|E]; [lia|].
    apply N.leb_le, H, count_pos_in. lia.
  - intros H c _. apply N.leb_le, H.
Qed.
Lemma incomparableb_spec a b : incomparableb a b = true <-> incomparable a b.
Proof.
  unfold incomparableb, incomparable. rewrite andb_true_iff, !negb_true_iff.
  rewrite <- !msubb_spec. split; intros [H1 H2]; split; try (intros H; congruence).
  - destruct (msubb a b); [exfalso; auto|reflexivity].
  - destruct (msubb b a); [exfalso; auto|reflexivity].
Qed.

(* the decision the code takes (compare lengths, test one inclusion) is the property's *)
Lemma code_test_is_incomparable a b :
  let sw := lenN a <? lenN b in
  ~ msub (if sw then a else b) (if sw then b else a) <-> incomparable a b.
Proof.
  cbn zeta. destruct (lenN a <? lenN b) eqn:E.
  - apply N.ltb_lt in E. split.
    + intros H. split; [exact H|]. intros H'. apply msub_len in H'. lia.
    + intros [H _]. exact H.
  - apply N.ltb_ge in E. split.
    + intros H. split; [|exact H]. intros H'. apply H.
      apply msub_len_eq; [exact H'|]. apply msub_len in H'. lia.
    + intros [_ H]. exact H.
Qed.


Section MapFacts.
  Context {V : Type}.
  Implicit Types (m : amap V) (k : string).

  Lemma map_get_insert k' k (v : V) m :
    map_get k' (map_insert k v m) = if String.eqb k' k then Some v else map_get k' m.
  Proof.
    induction m as [|[k0 v0] m IH]; cbn [map_insert map_get].
    - reflexivity.
    - destruct (String.eqb_spec k k0) as [->|Hn]; cbn [map_get].
      + destruct (String.eqb k' k0); reflexivity.
      + rewrite IH. destruct (String.eqb_spec k' k0) as [->|Hn'].
        * destruct (String.eqb_spec k0 k); [congruence|reflexivity].
        * reflexivity.
  Qed.

  Lemma keys_insert_in k' k (v : V) m : In k' (keys (map_insert k v m)) <-> k' = k \/ In k' (keys m).
  Proof.
    induction m as [|[k0 v0] m IH]; cbn [map_insert keys map fst In].
    - intuition.
    - destruct (String.eqb_spec k k0) as [->|Hn]; cbn [keys map fst In].
      + intuition.
      + unfold keys in IH. rewrite IH. intuition.
  Qed.

  Lemma keys_insert_nodup k (v : V) m : NoDup (keys m) -> NoDup (keys (map_insert k v m)).
  Proof.
    induction m as [|[k0 v0] m IH]; cbn [map_insert keys map fst]; intros H.
    - constructor; [intros []|constructor].
    - inversion H as [|? ? Hnin Hnd]; subst.
      destruct (String.eqb_spec k k0) as [->|Hn]; cbn [keys map fst].
      + constructor; assumption.
      + constructor; [|apply IH, Hnd].
        intros Hin. apply keys_insert_in in Hin. destruct Hin as [->|Hin]; [congruence|]. apply Hnin, Hin.
  Qed.

  Lemma map_get_in k (v : V) m : map_get k m = Some v -> In (k, v) m.
  Proof.
    induction m as [|[k0 v0] m IH]; cbn [map_get]; [discriminate|].
    destruct (String.eqb_spec k k0) as [->|Hn].
    - intros [= ->]. left. reflexivity.
    - intros H. right. apply IH, H.
  Qed.

  Lemma map_get_none k m : map_get k m = None <-> ~ In k (keys m).
  Proof.
    induction m as [|[k0 v0] m IH]; cbn [map_get keys map fst In]; [tauto|].
    destruct (String.eqb_spec k k0) as [->|Hn].
    - split; [discriminate|]. intros H. exfalso. apply H. left. reflexivity.
    - unfold keys in IH. rewrite IH. split; [intros H [E|E]; [congruence|auto]|auto].
  Qed.

  Lemma in_keys k (v : V) m : In (k, v) m -> In k (keys m).
  Proof. intros H. apply (in_map fst) in H. exact H. Qed.

  Lemma in_map_get k (v : V) m : NoDup (keys m) -> In (k, v) m -> map_get k m = Some v.
  Proof.
    induction m as [|[k0 v0] m IH]; cbn [map_get keys map fst In]; [tauto|].
    intros Hnd [E|Hin].
    - injection E as -> ->. rewrite String.eqb_refl. reflexivity.
    - inversion Hnd as [|? ? Hnin Hnd']; subst.
      destruct (String.eqb_spec k k0) as [->|Hn].
      + exfalso. apply Hnin. apply (in_keys _ _ _ Hin).
      + apply IH; assumption.
  Qed.

  Lemma map_get_some_key k (v : V) m : map_get k m = Some v -> In k (keys m).
  Proof. intros H. apply (in_keys k v), map_get_in, H. Qed.

  Lemma perm_map_get k m m' : NoDup (keys m) -> Permutation m m' -> map_get k m = map_get k m'.
  Proof.
    intros Hnd Hp.
    assert (NoDup (keys m')) as Hnd' by (eapply Permutation_NoDup; [apply Permutation_map, Hp|exact Hnd]).
    destruct (map_get k m) as [v|] eqn:E.
    - symmetry. apply in_map_get; [exact Hnd'|]. eapply Permutation_in; [exact Hp|]. apply map_get_in, E.
    - symmetry. apply map_get_none. intros Hin. apply map_get_none in E. apply E.
      eapply Permutation_in; [apply Permutation_sym, Permutation_map, Hp|exact Hin].
  Qed.

  Lemma extract_perm k m (v : V) m' : map_extract k m = Some (v, m') -> Permutation m ((k, v) :: m').
  Proof.
    revert m'. induction m as [|[k0 v0] m IH]; cbn [map_extract]; intros m'; [discriminate|].
    destruct (String.eqb_spec k k0) as [->|Hn].
    - intros [= -> ->]. apply Permutation_refl.
    - destruct (map_extract k m) as [[w r']|] eqn:E; [|discriminate].
      intros [= -> <-]. eapply Permutation_trans; [apply perm_skip, (IH _ eq_refl)|]. apply perm_swap.
  Qed.

  Lemma iterate_perm ord : forall m, Permutation (iterate ord m) m.
  Proof.
    induction ord as [|k ord IH]; intros m; cbn [iterate]; [apply Permutation_refl|].
    destruct (map_extract k m) as [[v m']|] eqn:E; [|apply IH].
    apply Permutation_sym. eapply Permutation_trans; [apply (extract_perm _ _ _ _ E)|].
    apply perm_skip, Permutation_sym, IH.
  Qed.

  Lemma iterate_nodup ord m : NoDup (keys m) -> NoDup (keys (iterate ord m)).
  Proof.
    intros H. eapply Permutation_NoDup; [apply Permutation_sym, Permutation_map, iterate_perm|exact H].
  Qed.

  Lemma iterate_get ord k m : NoDup (keys m) -> map_get k (iterate ord m) = map_get k m.
  Proof.
    intros H. symmetry. apply perm_map_get; [exact H|apply Permutation_sym, iterate_perm].
  Qed.

  Lemma iterate_in ord e m : In e (iterate ord m) <-> In e m.
  Proof.
    split; apply Permutation_in; [apply iterate_perm|apply Permutation_sym, iterate_perm].
  Qed.

  (* every iteration order is reached by some order argument *)
  Lemma extract_head k (v : V) m : map_extract k ((k, v) :: m) = Some (v, m).
  Proof. cbn [map_extract]. rewrite String.eqb_refl. reflexivity. Qed.

  Lemma extract_of_perm k (v : V) : forall m m', NoDup (keys m) -> Permutation m ((k, v) :: m') ->
    exists m'', map_extract k m = Some (v, m'') /\ Permutation m'' m'.
  Proof.
    intros m. induction m as [|[k0 v0] m IH]; intros m' Hnd Hp.
    - apply Permutation_nil in Hp. discriminate.
    - cbn [map_extract]. inversion Hnd as [|? ? Hnin Hnd']; subst.
      destruct (String.eqb_spec k k0) as [->|Hn].
      + assert (In (k0, v) ((k0, v0) :: m)) as Hin by (eapply Permutation_in; [apply Permutation_sym, Hp|left; reflexivity]).
        destruct Hin as [E|Hin].
        * injection E as ->. exists m. split; [reflexivity|]. apply (Permutation_cons_inv Hp).
        * exfalso. apply Hnin. apply (in_keys _ _ _ Hin).
      + assert (In (k0, v0) m') as Hin0.
        { assert (In (k0, v0) ((k, v) :: m')) as H by (eapply Permutation_in; [exact Hp|left; reflexivity]).
          destruct H as [E|H]; [congruence|exact H]. }
        apply in_split in Hin0 as (l1 & l2 & ->).
        assert (Permutation m ((k, v) :: l1 ++ l2)) as Hp'.
        { apply (Permutation_cons_inv (a := (k0, v0))).
          eapply Permutation_trans; [exact Hp|].
          eapply Permutation_trans; [|apply perm_swap].
          apply perm_skip. apply Permutation_sym, Permutation_middle. }
        destruct (IH _ Hnd' Hp') as (m'' & E & Hp'').
        rewrite E. exists ((k0, v0) :: m''). split; [reflexivity|].
        eapply Permutation_trans; [apply perm_skip, Hp''|]. apply Permutation_middle.
  Qed.

  Lemma iterate_exhaust m : forall m0, Permutation m0 m -> NoDup (keys m0) -> iterate (keys m) m0 = m.
  Proof.
    induction m as [|[k v] m IH]; intros m0 Hp Hnd; cbn [keys map fst iterate].
    - apply Permutation_sym, Permutation_nil in Hp. exact Hp.
    - destruct (extract_of_perm k v m0 m Hnd Hp) as (m'' & E & Hp'').
      rewrite E. f_equal. apply IH; [exact Hp''|].
      assert (Permutation m0 ((k, v) :: m'')) as Hq by (apply (extract_perm _ _ _ _ E)).
      assert (NoDup (keys ((k, v) :: m''))) as H by (eapply Permutation_NoDup; [apply Permutation_map, Hq|exact Hnd]).
      inversion H; assumption.
  Qed.

  Lemma iterate_reaches m m' : NoDup (keys m) -> Permutation m m' -> exists ord, iterate ord m = m'.
  Proof. intros Hnd Hp. exists (keys m'). apply iterate_exhaust; assumption. Qed.

End MapFacts.

  (* building a map by repeated insertion *)
  Lemma fold_insert_get {V W : Type} (f : string -> W -> V) k (l : amap W) : forall g0,
    NoDup (keys l) ->
    map_get k (fold_left (fun g e => map_insert (fst e) (f (fst e) (snd e)) g) l g0) =
    match map_get k l with Some w => Some (f k w) | None => map_get k g0 end.
  Proof.
    induction l as [|[k0 w0] l IH]; intros g0 Hnd; cbn [fold_left map_get fst snd]; [reflexivity|].
    inversion Hnd as [|? ? Hnin Hnd']; subst.
    rewrite (IH _ Hnd'). destruct (String.eqb_spec k k0) as [->|Hn].
    - assert (map_get k0 l = None) as -> by (apply map_get_none; exact Hnin).
      rewrite map_get_insert, String.eqb_refl. reflexivity.
    - destruct (map_get k l); [reflexivity|]. rewrite map_get_insert.
      destruct (String.eqb_spec k k0); [congruence|reflexivity].
  Qed.

  Lemma fold_insert_nodup {V W : Type} (f : string -> W -> V) (l : amap W) : forall g0,
    NoDup (keys g0) -> NoDup (keys (fold_left (fun g e => map_insert (fst e) (f (fst e) (snd e)) g) l g0)).
  Proof.
    induction l as [|[k0 w0] l IH]; intros g0 Hnd; cbn [fold_left]; [exact Hnd|].
    apply IH, keys_insert_nodup, Hnd.
  Qed.


Lemma map_get_map {V W : Type} (f : V -> W) k (m : amap V) :
  map_get k (map (fun e => (fst e, f (snd e))) m) = option_map f (map_get k m).
Proof.
  induction m as [|[k0 v0] m IH]; cbn [map map_get fst snd option_map]; [reflexivity|].
  destruct (String.eqb k k0); [reflexivity|exact IH].
Qed.
Lemma keys_map {V W : Type} (f : V -> W) (m : amap V) : keys (map (fun e => (fst e, f (snd e))) m) = keys m.
Proof. unfold keys. rewrite map_map. reflexivity. Qed.


(* ---------------- to_count_map / is_multisubset ---------------- *)
Lemma get0_insert c c' n (m : amap N) : get0 c (map_insert c' n m) = if String.eqb c c' then n else get0 c m.
Proof. unfold get0. rewrite map_get_insert. destruct (String.eqb c c'); reflexivity. Qed.

Lemma get0_count_map_from c l : forall m, get0 c (to_count_map_from l m) = count c l + get0 c m.
Proof.
  induction l as [|x l IH]; intros m; cbn [to_count_map_from count]; [lia|].
  rewrite IH, get0_insert. destruct (String.eqb_spec c x) as [->|Hn]; lia.
Qed.
Lemma get0_count_map c l : get0 c (to_count_map l) = count c l.
Proof. unfold to_count_map. rewrite get0_count_map_from. unfold get0. cbn [map_get]. lia. Qed.

Lemma count_map_from_nodup l : forall m, NoDup (keys m) -> NoDup (keys (to_count_map_from l m)).
Proof. induction l as [|x l IH]; intros m H; cbn [to_count_map_from]; [exact H|]. apply IH, keys_insert_nodup, H. Qed.
Lemma count_map_nodup l : NoDup (keys (to_count_map l)).
Proof. apply count_map_from_nodup. constructor. Qed.

Lemma in_insert_cases {V} k (v : V) e m : In e (map_insert k v m) -> e = (k, v) \/ In e m.
Proof.
  induction m as [|[k0 v0] m IH]; cbn [map_insert In]; [intros [H|[]]; auto|].
  destruct (String.eqb k k0); cbn [In]; intros [H|H]; auto.
  destruct (IH H); auto.
Qed.
Lemma count_map_from_positive l : forall m, (forall e, In e m -> 0 < snd e) ->
  forall e, In e (to_count_map_from l m) -> 0 < snd e.
Proof.
  induction l as [|x l IH]; intros m H; cbn [to_count_map_from]; [exact H|].
  apply IH. intros e He. destruct (in_insert_cases _ _ _ _ He) as [->|He']; [cbn [snd]; lia|apply H, He'].
Qed.
(* debug_assert!(smaller_count > 0) of is_multisubset cannot fire *)
Lemma count_map_positive l c n : In (c, n) (to_count_map l) -> 0 < n.
Proof. intros H. apply (count_map_from_positive l [] (fun e F => match F with end) _ H). Qed.

Lemma is_multisubset_spec ord a b :
  is_multisubset ord (to_count_map a) (to_count_map b) = true <-> msub b a.
Proof.
  unfold is_multisubset. rewrite forallb_forall. split.
  - intros H c. destruct (N.eq_dec (count c b) 0) as [E|E]; [lia|].
    assert (get0 c (to_count_map b) = count c b) as G by apply get0_count_map.
    unfold get0 in G. destruct (map_get c (to_count_map b)) as [n|] eqn:Eg; [subst n|lia].
    specialize (H (c, count c b)). cbn [fst snd] in H. rewrite get0_count_map in H.
    assert (In (c, count c b) (iterate ord (to_count_map b))) as Hin by (apply iterate_in, map_get_in, Eg).
    specialize (H Hin). apply negb_true_iff, N.ltb_ge in H. exact H.
  - intros H [c n] Hin. cbn [fst snd]. apply iterate_in in Hin.
    assert (map_get c (to_count_map b) = Some n) as Eg by (apply in_map_get; [apply count_map_nodup|exact Hin]).
    pose proof (get0_count_map c b) as G. unfold get0 in G. rewrite Eg in G. subst n.
    rewrite get0_count_map. apply negb_true_iff, N.ltb_ge, H.
Qed.
Lemma is_multisubset_order ord ord' a b :
  is_multisubset ord (to_count_map a) (to_count_map b) = is_multisubset ord' (to_count_map a) (to_count_map b).
Proof.
  destruct (is_multisubset ord _ _) eqn:E1, (is_multisubset ord' _ _) eqn:E2; try reflexivity.
  - apply is_multisubset_spec in E1. apply (is_multisubset_spec ord') in E1. congruence.
  - apply is_multisubset_spec in E2. apply (is_multisubset_spec ord) in E2. congruence.
Qed.

(* ---------------- collect_peers_cids_from_trace ---------------- *)
Definition has_key {V} (m : amap V) (p : string) : bool := match map_get p m with Some _ => true | None => false end.
(* the first peer, in trace order, that has a CID but no signature *)
Definition first_unsigned (signed : string -> bool) (tr : list (string * string)) : option string :=
  option_map fst (find (fun e => negb (signed (fst e))) tr).
Lemma first_unsigned_ext s s' tr : (forall p, s p = s' p) -> first_unsigned s tr = first_unsigned s' tr.
Proof.
  intros H. unfold first_unsigned. f_equal. induction tr as [|e tr IH]; cbn [find]; [reflexivity|].
  rewrite H, IH. reflexivity.
Qed.

Lemma first_unsigned_cons s q c tr :
  first_unsigned s ((q, c) :: tr) = if s q then first_unsigned s tr else Some q.
Proof. unfold first_unsigned. cbn [find fst]. destruct (s q); reflexivity. Qed.

Definition push_all (p : string) (tr : list (string * string)) (pi : peer_info) : peer_info :=
  {| pi_sig := pi_sig pi; pi_cids := pi_cids pi ++ peer_cids p tr |}.

Lemma peer_cids_cons_same p c tr : peer_cids p ((p, c) :: tr) = c :: peer_cids p tr.
Proof. unfold peer_cids. cbn [filter fst]. rewrite String.eqb_refl. reflexivity. Qed.
Lemma peer_cids_cons_other p q c tr : q <> p -> peer_cids p ((q, c) :: tr) = peer_cids p tr.
Proof. intros H. unfold peer_cids. cbn [filter fst]. destruct (String.eqb_spec q p); [congruence|reflexivity]. Qed.

Lemma collect_spec tr : forall g,
  match collect_peers_cids_from_trace tr g with
  | DOk g' => first_unsigned (has_key g) tr = None /\ (NoDup (keys g) -> NoDup (keys g')) /\
              forall p, map_get p g' = option_map (push_all p tr) (map_get p g)
  | DErr e => exists p, e = PeerIdNotFound p /\ first_unsigned (has_key g) tr = Some p
  end.
Proof.
  induction tr as [|[q c] tr IH]; intros g; cbn [collect_peers_cids_from_trace].
  - split; [reflexivity|]. split; [auto|]. intros p. destruct (map_get p g) as [pi|]; [|reflexivity].
    cbn [option_map]. unfold push_all, peer_cids. cbn [filter map]. rewrite app_nil_r. destruct pi; reflexivity.
  - unfold try_push_cid. destruct (map_get q g) as [pi|] eqn:Eq.
    + set (g1 := map_insert q _ g).
      assert (forall p, has_key g1 p = has_key g p) as Hk.
      { intros p. unfold has_key, g1. rewrite map_get_insert. destruct (String.eqb_spec p q) as [->|]; [rewrite Eq|]; reflexivity. }
      specialize (IH g1). destruct (collect_peers_cids_from_trace tr g1) as [g'|e].
      * destruct IH as (Hf & Hnd & Hget). split; [|split].
        -- rewrite first_unsigned_cons. unfold has_key at 1. rewrite Eq.
           rewrite <- (first_unsigned_ext _ _ tr Hk). exact Hf.
        -- intros H. apply Hnd. unfold g1. apply keys_insert_nodup, H.
        -- intros p. rewrite Hget. unfold g1. rewrite map_get_insert.
           destruct (String.eqb_spec p q) as [->|Hn].
           ++ rewrite Eq. cbn [option_map]. unfold push_all. cbn [pi_sig pi_cids].
              rewrite peer_cids_cons_same, <- app_assoc. reflexivity.
           ++ unfold push_all. rewrite (peer_cids_cons_other p q c tr) by congruence. reflexivity.
      * destruct IH as (p & -> & Hf). exists p. split; [reflexivity|].
        rewrite first_unsigned_cons. unfold has_key at 1. rewrite Eq.
        rewrite <- (first_unsigned_ext _ _ tr Hk). exact Hf.
    + exists q. split; [reflexivity|]. rewrite first_unsigned_cons. unfold has_key. rewrite Eq. reflexivity.
Qed.

(* ---------------- DataVerifier::new ---------------- *)
Section New.
  Variable key_ok : string -> bool.

  Definition info_of (d : data) (p : string) (s : sig) : peer_info :=
    {| pi_sig := s; pi_cids := sort_cids (Mof d p) |}.

  (* the order-free description of DataVerifier::new *)
  Inductive new_outcome (d : data) : dres verifier -> Prop :=
  | NewBadKey k : In k (keys (d_sigs d)) -> key_ok k = false -> new_outcome d (DErr (MalformedKey k))
  | NewUnsigned p : (forall k, In k (keys (d_sigs d)) -> key_ok k = true) ->
      first_unsigned (has_key (d_sigs d)) (d_trace d) = Some p -> new_outcome d (DErr (PeerIdNotFound p))
  | NewOk v : (forall k, In k (keys (d_sigs d)) -> key_ok k = true) ->
      first_unsigned (has_key (d_sigs d)) (d_trace d) = None ->
      NoDup (keys v) ->
      (forall p, map_get p v = option_map (info_of d p) (map_get p (d_sigs d))) ->
      new_outcome d (DOk v).

  Lemma dv_new_spec ord d : wf_data d -> new_outcome d (dv_new key_ok ord d).
  Proof.
    intros Hwf. unfold dv_new.
    set (it := iterate ord (d_sigs d)).
    assert (NoDup (keys it)) as Hnd by (apply iterate_nodup, Hwf).
    assert (forall p, map_get p it = map_get p (d_sigs d)) as Hget by (intros p; apply iterate_get, Hwf).
    destruct (find (fun e => negb (key_ok (fst e))) it) as [e|] eqn:Ef.
    - apply find_some in Ef as [Hin Hb]. apply negb_true_iff in Hb.
      apply NewBadKey; [|exact Hb]. apply iterate_in in Hin. destruct e as [k s]. apply (in_keys _ _ _ Hin).
    - assert (forall k, In k (keys (d_sigs d)) -> key_ok k = true) as Hall.
      { intros k Hk. unfold keys in Hk. apply in_map_iff in Hk as ([k' s] & <- & Hin).
        apply (iterate_in ord) in Hin. pose proof (find_none _ _ Ef _ Hin) as Hb. cbn [fst] in *.
        apply negb_false_iff in Hb. exact Hb. }
      match goal with |- context [collect_peers_cids_from_trace _ ?g] => set (g0 := g) end.
      assert (forall p, map_get p g0 = option_map (fun s => {| pi_sig := s; pi_cids := [] |}) (map_get p (d_sigs d))) as Hg0.
      { intros p. unfold g0.
        etransitivity; [apply (fold_insert_get (fun (_ : string) (s : sig) => {| pi_sig := s; pi_cids := [] |}) p it [] Hnd)|].
        rewrite Hget. destruct (map_get p (d_sigs d)); reflexivity. }
      assert (NoDup (keys g0)) as Hnd0.
      { unfold g0. apply (fold_insert_nodup (fun (_ : string) (s : sig) => {| pi_sig := s; pi_cids := [] |}) it []). constructor. }
      assert (forall p, has_key g0 p = has_key (d_sigs d) p) as Hk.
      { intros p. unfold has_key. rewrite Hg0. destruct (map_get p (d_sigs d)); reflexivity. }
      pose proof (collect_spec (d_trace d) g0) as Hc.
      destruct (collect_peers_cids_from_trace (d_trace d) g0) as [g|e].
      + destruct Hc as (Hf & Hndg & Hgetg). apply NewOk.
        * exact Hall.
        * rewrite <- (first_unsigned_ext _ _ _ Hk). exact Hf.
        * pose proof (keys_map (fun pi => {| pi_sig := pi_sig pi; pi_cids := sort_cids (pi_cids pi) |}) g) as Hkm.
          cbn beta in Hkm. rewrite Hkm. apply Hndg, Hnd0.
        * intros p.
          pose proof (map_get_map (fun pi => {| pi_sig := pi_sig pi; pi_cids := sort_cids (pi_cids pi) |}) p g) as Hmm.
          cbn beta in Hmm. rewrite Hmm, Hgetg, Hg0. destruct (map_get p (d_sigs d)) as [s|]; [|reflexivity].
          cbn [option_map push_all pi_sig pi_cids app]. reflexivity.
      + destruct Hc as (p & -> & Hf). apply NewUnsigned; [exact Hall|].
        rewrite <- (first_unsigned_ext _ _ _ Hk). exact Hf.
  Qed.
End New.

(* ---------------- DataVerifier::verify ---------------- *)
Lemma verify_loop_spec salt l :
  match verify_loop salt l with
  | DOk _ => forall p pi, In (p, pi) l -> pk_verify p (pi_cids pi) salt (pi_sig pi) = true
  | DErr e => exists p pi, e = SignatureMismatch p /\ In (p, pi) l /\ pk_verify p (pi_cids pi) salt (pi_sig pi) = false
  end.
Proof.
  induction l as [|[q qi] l IH]; cbn [verify_loop]; [intros p pi []|].
  destruct (pk_verify q (pi_cids qi) salt (pi_sig qi)) eqn:E.
  - destruct (verify_loop salt l).
    + intros p pi [H|H]; [injection H as <- <-; exact E|apply IH, H].
    + destruct IH as (p & pi & -> & Hin & Hv). exists p, pi. split; [reflexivity|]. split; [right; exact Hin|exact Hv].
  - exists q, qi. split; [reflexivity|]. split; [left; reflexivity|exact E].
Qed.

Lemma dv_verify_spec ord salt v : NoDup (keys v) ->
  match dv_verify ord salt v with
  | DOk _ => forall p pi, map_get p v = Some pi -> pk_verify p (pi_cids pi) salt (pi_sig pi) = true
  | DErr e => exists p pi, e = SignatureMismatch p /\ map_get p v = Some pi /\ pk_verify p (pi_cids pi) salt (pi_sig pi) = false
  end.
Proof.
  intros Hnd. unfold dv_verify. pose proof (verify_loop_spec salt (iterate ord v)) as H.
  destruct (verify_loop salt (iterate ord v)).
  - intros p pi Hg. apply H. apply iterate_in, map_get_in, Hg.
  - destruct H as (p & pi & -> & Hin & Hv). exists p, pi. split; [reflexivity|]. split; [|exact Hv].
    apply in_map_get; [exact Hnd|]. apply iterate_in in Hin. exact Hin.
Qed.


(* ---------------- DataVerifier::merge ---------------- *)
Definition pick (our other : peer_info) : peer_info :=
  if lenN (pi_cids our) <? lenN (pi_cids other) then other else our.

Lemma msub_dec a b : {msub a b} + {~ msub a b}.
Proof. destruct (msubb a b) eqn:E; [left; apply msubb_spec, E|right; intros H; apply msubb_spec in H; congruence]. Qed.

Lemma check_spec ord k (our other : peer_info) :
  let swap := lenN (pi_cids our) <? lenN (pi_cids other) in
  let larger := if swap then other else our in
  let smaller := if swap then our else other in
  (check_cid_multiset_invariant ord k larger smaller = DOk tt /\ ~ incomparable (pi_cids our) (pi_cids other)) \/
  (check_cid_multiset_invariant ord k larger smaller = DErr (MergeMismatch k) /\ incomparable (pi_cids our) (pi_cids other)).
Proof.
  cbn zeta. unfold check_cid_multiset_invariant.
  pose proof (code_test_is_incomparable (pi_cids our) (pi_cids other)) as T. cbn zeta in T.
  destruct (is_multisubset ord _ _) eqn:E.
  - left. split; [reflexivity|]. apply is_multisubset_spec in E. intros H. apply T in H. apply H.
    destruct (lenN (pi_cids our) <? lenN (pi_cids other)); exact E.
  - right. split; [reflexivity|]. apply T. intros H. 
    assert (is_multisubset ord
              (to_count_map (pi_cids (if lenN (pi_cids our) <? lenN (pi_cids other) then other else our)))
              (to_count_map (pi_cids (if lenN (pi_cids our) <? lenN (pi_cids other) then our else other))) = true) as E'.
    { apply is_multisubset_spec. destruct (lenN (pi_cids our) <? lenN (pi_cids other)); exact H. }
    congruence.
Qed.

Definition merged_entry (o : option peer_info) (s : option peer_info) : option peer_info :=
  match o, s with
  | Some o, Some s => Some (pick s o)
  | Some o, None => Some o
  | None, s => s
  end.

Lemma merge_loop_spec osub : forall other self, NoDup (keys other) -> NoDup (keys self) ->
  match merge_loop osub self other with
  | DOk g => NoDup (keys g) /\
      (forall k, map_get k g = merged_entry (map_get k other) (map_get k self)) /\
      (forall k o s, map_get k other = Some o -> map_get k self = Some s -> ~ incomparable (pi_cids s) (pi_cids o))
  | DErr e => exists k o s, e = MergeMismatch k /\ map_get k other = Some o /\ map_get k self = Some s /\
                            incomparable (pi_cids s) (pi_cids o)
  end.
Proof.
  induction other as [|[k oi] rest IH]; intros self Hnd Hns; cbn [merge_loop].
  - split; [exact Hns|]. split; [intros k; cbn [map_get merged_entry]; reflexivity|]. intros k o s H. discriminate.
  - inversion Hnd as [|? ? Hnin Hnd']; subst.
    assert (map_get k rest = None) as Hkr by (apply map_get_none; exact Hnin).
    (* the state after this entry, whichever branch is taken *)
    assert (forall self1 x,
              NoDup (keys self1) ->
              (forall k', map_get k' self1 = if String.eqb k' k then Some x else map_get k' self) ->
              merged_entry (Some oi) (map_get k self) = Some x ->
              (forall s, map_get k self = Some s -> ~ incomparable (pi_cids s) (pi_cids oi)) ->
              match merge_loop osub self1 rest with
              | DOk g => NoDup (keys g) /\
                  (forall k0, map_get k0 g = merged_entry (map_get k0 ((k, oi) :: rest)) (map_get k0 self)) /\
                  (forall k0 o s, map_get k0 ((k, oi) :: rest) = Some o -> map_get k0 self = Some s -> ~ incomparable (pi_cids s) (pi_cids o))
              | DErr e => exists k0 o s, e = MergeMismatch k0 /\ map_get k0 ((k, oi) :: rest) = Some o /\ map_get k0 self = Some s /\
                                          incomparable (pi_cids s) (pi_cids o)
              end) as Step.
    { intros self1 x Hn1 Hg1 Hx Hc. specialize (IH self1 Hnd' Hn1).
      destruct (merge_loop osub self1 rest) as [g|e].
      - destruct IH as (Hng & Hget & Hcomp). split; [exact Hng|]. split.
        + intros k0. rewrite Hget, Hg1. cbn [map_get]. destruct (String.eqb_spec k0 k) as [->|Hn].
          * rewrite Hkr. cbn [merged_entry]. symmetry. exact Hx.
          * reflexivity.
        + intros k0 o s. cbn [map_get]. destruct (String.eqb_spec k0 k) as [->|Hn].
          * intros [= <-] Hs. apply Hc, Hs.
          * intros Ho Hs. apply (Hcomp k0 o s Ho). rewrite Hg1. destruct (String.eqb_spec k0 k); [congruence|exact Hs].
      - destruct IH as (k0 & o & s & -> & Ho & Hs & Hi). exists k0, o, s. split; [reflexivity|].
        assert (k0 <> k) as Hn by (intros ->; congruence).
        cbn [map_get]. destruct (String.eqb_spec k0 k); [congruence|]. split; [exact Ho|]. split; [|exact Hi].
        rewrite Hg1 in Hs. destruct (String.eqb_spec k0 k); [congruence|exact Hs]. }
    destruct (map_get k self) as [our|] eqn:Eo.
    + destruct (check_spec (osub k) k our oi) as [[Ec Hc]|[Ec Hc]]; cbn zeta in Ec; rewrite Ec.
      * apply (Step _ (pick our oi)).
        -- destruct (lenN (pi_cids our) <? lenN (pi_cids oi)); [apply keys_insert_nodup|]; exact Hns.
        -- intros k'. unfold pick. destruct (lenN (pi_cids our) <? lenN (pi_cids oi)).
           ++ rewrite map_get_insert. reflexivity.
           ++ destruct (String.eqb_spec k' k) as [->|]; [exact Eo|reflexivity].
        -- reflexivity.
        -- intros s [= <-]. exact Hc.
      * exists k, oi, our. split; [reflexivity|]. cbn [map_get]. rewrite String.eqb_refl. auto.
    + apply (Step _ oi).
      * apply keys_insert_nodup, Hns.
      * intros k'. apply map_get_insert.
      * reflexivity.
      * intros s H. discriminate.
Qed.

Definition merged_sig (o s : option peer_info) : option sig := option_map pi_sig (merged_entry o s).

Lemma dv_merge_spec om ost osub vp vc : NoDup (keys vp) -> NoDup (keys vc) ->
  match dv_merge om ost osub vp vc with
  | DOk st =>
      (forall k, map_get k st = merged_sig (map_get k vc) (map_get k vp)) /\
      (forall k o s, map_get k vc = Some o -> map_get k vp = Some s -> ~ incomparable (pi_cids s) (pi_cids o))
  | DErr e => exists k o s, e = MergeMismatch k /\ map_get k vc = Some o /\ map_get k vp = Some s /\
                            incomparable (pi_cids s) (pi_cids o)
  end.
Proof.
  intros Hp Hc. unfold dv_merge.
  pose proof (merge_loop_spec osub (iterate om vc) vp (iterate_nodup om vc Hc) Hp) as H.
  destruct (merge_loop osub vp (iterate om vc)) as [g|e].
  - destruct H as (Hng & Hget & Hcomp). split.
    + intros k.
      etransitivity; [apply (fold_insert_get (fun (_ : string) (pi : peer_info) => pi_sig pi) k (iterate ost g) [] (iterate_nodup ost g Hng))|].
      rewrite (iterate_get ost k g Hng), Hget, (iterate_get om k vc Hc). cbn [map_get].
      unfold merged_sig. destruct (merged_entry _ _); reflexivity.
    + intros k o s Ho. apply Hcomp. rewrite (iterate_get om k vc Hc). exact Ho.
  - destruct H as (k & o & s & -> & Ho & Hs & Hi). exists k, o, s. rewrite (iterate_get om k vc Hc) in Ho. auto.
Qed.

(* ---------------- transfer between sorted and collected lists ---------------- *)
Lemma msub_sort_iff a b : msub (sort_cids a) (sort_cids b) <-> msub a b.
Proof. unfold msub. split; intros H c; specialize (H c); rewrite !count_sort in *; exact H. Qed.
Lemma incomparable_sort_iff a b : incomparable (sort_cids a) (sort_cids b) <-> incomparable a b.
Proof. unfold incomparable. rewrite !msub_sort_iff. reflexivity. Qed.

Lemma unsigned_none_signed s tr p c : first_unsigned s tr = None -> In c (peer_cids p tr) -> s p = true.
Proof.
  induction tr as [|[q c0] tr IH]; [intros _ []|].
  rewrite first_unsigned_cons. destruct (s q) eqn:Eq; [|discriminate]. intros Hf.
  destruct (String.eqb_spec q p) as [->|Hn].
  - intros _. exact Eq.
  - rewrite (peer_cids_cons_other p q c0 tr Hn). apply IH, Hf.
Qed.
Lemma msub_nil b : msub [] b.
Proof. intros c. cbn [count]. lia. Qed.
Lemma incomparable_nonempty a b : incomparable a b -> (exists c, In c a) /\ (exists c, In c b).
Proof.
  intros [H1 H2]. split.
  - destruct a as [|x a]; [exfalso; apply H1, msub_nil|exists x; left; reflexivity].
  - destruct b as [|x b]; [exfalso; apply H2, msub_nil|exists x; left; reflexivity].
Qed.

Section Top.
  Variable key_ok : string -> bool.
  Notation dv_new := (dv_new key_ok).
  Notation dv_verification := (dv_verification key_ok).
  Notation verification_step := (verification_step key_ok).

  Lemma new_ok_inv ord d v : wf_data d -> dv_new ord d = DOk v ->
    first_unsigned (has_key (d_sigs d)) (d_trace d) = None /\ NoDup (keys v) /\
    (forall p, map_get p v = option_map (info_of d p) (map_get p (d_sigs d))).
  Proof.
    intros Hwf E. pose proof (dv_new_spec key_ok ord d Hwf) as H. rewrite E in H. inversion H; subst. auto.
  Qed.

  Lemma signed_of_nonempty d p c :
    first_unsigned (has_key (d_sigs d)) (d_trace d) = None -> In c (Mof d p) -> exists s, map_get p (d_sigs d) = Some s.
  Proof.
    intros Hf Hin. pose proof (unsigned_none_signed _ _ _ _ Hf Hin) as H. unfold has_key in H.
    destruct (map_get p (d_sigs d)) as [s|]; [exists s; reflexivity|discriminate].
  Qed.

  (* the merge of two verifiers built from data, in terms of the data *)
  Lemma merge_of_new o prev cur vp vc : wf_data prev -> wf_data cur ->
    dv_new (o_new_prev o) prev = DOk vp -> dv_new (o_new_cur o) cur = DOk vc ->
    match dv_merge (o_merge o) (o_store o) (o_sub o) vp vc with
    | DOk st => (forall p, ~ incomparable (Mof prev p) (Mof cur p)) /\
                (forall p, map_get p st =
                   match map_get p (d_sigs prev), map_get p (d_sigs cur) with
                   | Some sp, Some sc => Some (if lenN (Mof prev p) <? lenN (Mof cur p) then sc else sp)
                   | Some sp, None => Some sp
                   | None, Some sc => Some sc
                   | None, None => None
                   end)
    | DErr e => exists q, e = MergeMismatch q /\ incomparable (Mof prev q) (Mof cur q)
    end.
  Proof.
    intros Wp Wc Ep Ec.
    destruct (new_ok_inv _ _ _ Wp Ep) as (Fp & Np & Gp). destruct (new_ok_inv _ _ _ Wc Ec) as (Fc & Nc & Gc).
    pose proof (dv_merge_spec (o_merge o) (o_store o) (o_sub o) vp vc Np Nc) as H.
    destruct (dv_merge (o_merge o) (o_store o) (o_sub o) vp vc) as [st|e].
    - destruct H as (Hget & Hcomp). split.
      + intros p Hi. destruct (incomparable_nonempty _ _ Hi) as [[c1 H1] [c2 H2]].
        destruct (signed_of_nonempty prev p c1 Fp H1) as [sp Esp]. destruct (signed_of_nonempty cur p c2 Fc H2) as [sc Esc].
        apply (Hcomp p (info_of cur p sc) (info_of prev p sp)).
        * rewrite Gc, Esc. reflexivity.
        * rewrite Gp, Esp. reflexivity.
        * cbn [info_of pi_cids]. apply incomparable_sort_iff, Hi.
      + intros p. rewrite Hget, Gc, Gp. unfold merged_sig.
        destruct (map_get p (d_sigs prev)) as [sp|], (map_get p (d_sigs cur)) as [sc|]; cbn [option_map merged_entry]; try reflexivity.
        unfold pick. cbn [info_of pi_cids pi_sig]. rewrite !lenN_sort.
        destruct (lenN (Mof prev p) <? lenN (Mof cur p)); reflexivity.
    - destruct H as (k & oi & si & -> & Ho & Hs & Hi). exists k. split; [reflexivity|].
      rewrite Gc in Ho. rewrite Gp in Hs.
      destruct (map_get k (d_sigs cur)) as [sc|]; [|discriminate]. destruct (map_get k (d_sigs prev)) as [sp|]; [|discriminate].
      injection Ho as <-. injection Hs as <-. cbn [info_of pi_cids] in Hi. apply incomparable_sort_iff, Hi.
  Qed.

  (* ---------------- C15_reject ---------------- *)
  Lemma C15_reject : C15_reject_stmt key_ok.
  Proof.
    intros o prev cur salt Wp Wc [p Hi]. split.
    - unfold Sig.verification_step, Sig.dv_verification.
      destruct (dv_new (o_new_prev o) prev) as [vp|] eqn:Ep; [|reflexivity].
      destruct (dv_new (o_new_cur o) cur) as [vc|] eqn:Ec; [|reflexivity].
      destruct (dv_verify (o_verify o) salt vc); [|reflexivity].
      pose proof (merge_of_new o prev cur vp vc Wp Wc Ep Ec) as H.
      destruct (dv_merge _ _ _ vp vc); [|reflexivity]. exfalso. destruct H as [H _]. apply (H p Hi).
    - intros vp vc Ep Ec. pose proof (merge_of_new o prev cur vp vc Wp Wc Ep Ec) as H.
      destruct (dv_merge _ _ _ vp vc) as [st|e].
      + exfalso. destruct H as [H _]. apply (H p Hi).
      + destruct H as (q & -> & Hq). exists q. auto.
  Qed.

  Lemma C15_only_equivocation : C15_only_equivocation_stmt key_ok.
  Proof.
    intros o prev cur vp vc e Wp Wc Ep Ec Em. pose proof (merge_of_new o prev cur vp vc Wp Wc Ep Ec) as H.
    rewrite Em in H. exact H.
  Qed.

  (* ---------------- C15_keep_larger ---------------- *)
  Lemma comparable_larger a b : ~ incomparable a b -> msub a (larger_of a b) /\ msub b (larger_of a b) /\
    (lenN a = lenN b -> meq a b).
  Proof.
    intros H. pose proof (code_test_is_incomparable a b) as T. cbn zeta in T. unfold larger_of.
    assert (msub (if lenN a <? lenN b then a else b) (if lenN a <? lenN b then b else a)) as M.
    { destruct (msub_dec (if lenN a <? lenN b then a else b) (if lenN a <? lenN b then b else a)) as [M|M]; [exact M|].
      exfalso. apply H, T, M. }
    destruct (lenN a <? lenN b) eqn:E.
    - split; [exact M|]. split; [apply msub_refl|]. apply N.ltb_lt in E. lia.
    - split; [apply msub_refl|]. split; [exact M|]. intros L. apply msub_antisym; [|exact M].
      apply msub_len_eq; [exact M|lia].
  Qed.

  Lemma C15_keep_larger : C15_keep_larger_stmt key_ok.
  Proof.
    intros o cid_ok prev cur salt st Wp Wc. unfold Sig.verification_step, Sig.dv_verification.
    destruct cid_ok; [|discriminate].
    destruct (dv_new (o_new_prev o) prev) as [vp|] eqn:Ep; [|discriminate].
    destruct (dv_new (o_new_cur o) cur) as [vc|] eqn:Ec; [|discriminate].
    destruct (new_ok_inv _ _ _ Wc Ec) as (Fc & Nc & Gc).
    pose proof (dv_verify_spec (o_verify o) salt vc Nc) as Hv.
    destruct (dv_verify (o_verify o) salt vc); [|discriminate].
    pose proof (merge_of_new o prev cur vp vc Wp Wc Ep Ec) as H.
    destruct (dv_merge _ _ _ vp vc) as [st'|]; [|discriminate]. intros [= ->].
    destruct H as (Hcomp & Hget). split; [exact Hcomp|].
    assert (forall p sc, map_get p (d_sigs cur) = Some sc -> sig_verify p (Mof cur p) salt sc = true) as Vc.
    { intros p sc Es. specialize (Hv p (info_of cur p sc)). rewrite Gc, Es in Hv. apply (Hv eq_refl). }
    intros p. unfold kept_for. cbn zeta. specialize (Hget p).
    destruct (map_get p (d_sigs prev)) as [sp|] eqn:Esp, (map_get p (d_sigs cur)) as [sc|] eqn:Esc.
    - destruct (comparable_larger _ _ (Hcomp p)) as (M1 & M2 & M3).
      split; [exact Hget|]. split; [exact M1|]. split; [exact M2|]. split; [apply Vc, Esc|]. split.
      + intros Vp. unfold larger_of. destruct (lenN (Mof prev p) <? lenN (Mof cur p)); [apply Vc, Esc|exact Vp].
      + intros L. split; [apply M3, L|]. intros s. unfold sig_verify.
        rewrite (sort_canonical _ _ (M3 L)). reflexivity.
    - exact Hget.
    - split; [exact Hget|apply Vc, Esc].
    - exact Hget.
  Qed.

  Lemma C15_accept : C15_accept_stmt key_ok.
  Proof.
    intros o prev cur salt vp vc Wp Wc Hcomp Ep Ec Ev. unfold Sig.verification_step, Sig.dv_verification.
    rewrite Ep, Ec, Ev. pose proof (merge_of_new o prev cur vp vc Wp Wc Ep Ec) as H.
    destruct (dv_merge _ _ _ vp vc) as [st|e]; [exists st; reflexivity|].
    exfalso. destruct H as (q & _ & Hq). apply (Hcomp q Hq).
  Qed.

  (* ---------------- order independence ---------------- *)
  Lemma new_equiv ord ord' d : wf_data d ->
    match dv_new ord d, dv_new ord' d with
    | DOk v, DOk v' => NoDup (keys v) /\ NoDup (keys v') /\ forall p, map_get p v = map_get p v'
    | DErr e, DErr e' => dv_err_name e = dv_err_name e'
    | _, _ => False
    end.
  Proof.
    intros W. pose proof (dv_new_spec key_ok ord d W) as H1. pose proof (dv_new_spec key_ok ord' d W) as H2.
    inversion H1 as [k Hin Hk E1|p Hall Hf E1|v Hall Hf Hn Hg E1]; inversion H2 as [k' Hin' Hk' E2|p' Hall' Hf' E2|v' Hall' Hf' Hn' Hg' E2];
      try reflexivity.
    - specialize (Hall' k Hin). congruence.
    - specialize (Hall' k Hin). congruence.
    - specialize (Hall k' Hin'). congruence.
    - congruence.
    - specialize (Hall k' Hin'). congruence.
    - congruence.
    - split; [exact Hn|]. split; [exact Hn'|]. intros p. rewrite Hg, Hg'. reflexivity.
  Qed.

  Lemma verify_equiv ord ord' salt v v' : NoDup (keys v) -> NoDup (keys v') -> (forall p, map_get p v = map_get p v') ->
    match dv_verify ord salt v, dv_verify ord' salt v' with
    | DOk _, DOk _ => True
    | DErr e, DErr e' => dv_err_name e = dv_err_name e'
    | _, _ => False
    end.
  Proof.
    intros N1 N2 G. pose proof (dv_verify_spec ord salt v N1) as H1. pose proof (dv_verify_spec ord' salt v' N2) as H2.
    destruct (dv_verify ord salt v), (dv_verify ord' salt v'); try exact I.
    - destruct H2 as (p & pi & _ & Hg & Hv). rewrite <- G in Hg. rewrite (H1 p pi Hg) in Hv. discriminate.
    - destruct H1 as (p & pi & _ & Hg & Hv). rewrite G in Hg. rewrite (H2 p pi Hg) in Hv. discriminate.
    - destruct H1 as (p & pi & -> & _). destruct H2 as (p' & pi' & -> & _). reflexivity.
  Qed.

  Lemma merge_equiv om ost osub om' ost' osub' vp vp' vc vc' :
    NoDup (keys vp) -> NoDup (keys vp') -> NoDup (keys vc) -> NoDup (keys vc') ->
    (forall p, map_get p vp = map_get p vp') -> (forall p, map_get p vc = map_get p vc') ->
    dres_equiv (dv_merge om ost osub vp vc) (dv_merge om' ost' osub' vp' vc').
  Proof.
    intros Np Np' Nc Nc' Gp Gc.
    pose proof (dv_merge_spec om ost osub vp vc Np Nc) as H1. pose proof (dv_merge_spec om' ost' osub' vp' vc' Np' Nc') as H2.
    destruct (dv_merge om ost osub vp vc) as [st|e], (dv_merge om' ost' osub' vp' vc') as [st'|e']; cbn [dres_equiv].
    - destruct H1 as [G1 _], H2 as [G2 _]. intros p. rewrite G1, G2, Gp, Gc. reflexivity.
    - destruct H1 as [_ C1]. destruct H2 as (k & oi & s & _ & Ho & Hs & Hi). rewrite <- Gc in Ho. rewrite <- Gp in Hs.
      apply (C1 k oi s Ho Hs Hi).
    - destruct H2 as [_ C2]. destruct H1 as (k & oi & s & _ & Ho & Hs & Hi). rewrite Gc in Ho. rewrite Gp in Hs.
      apply (C2 k oi s Ho Hs Hi).
    - destruct H1 as (k & oi & s & -> & _). destruct H2 as (k' & oi' & s' & -> & _). reflexivity.
  Qed.

  Lemma C15_order : C15_order_stmt key_ok.
  Proof.
    intros o o' cid_ok prev cur salt Wp Wc.
    assert (dres_equiv (dv_verification o prev cur salt) (dv_verification o' prev cur salt)) as D.
    { unfold Sig.dv_verification.
      pose proof (new_equiv (o_new_prev o) (o_new_prev o') prev Wp) as Hp.
      destruct (dv_new (o_new_prev o) prev) as [vp|ep], (dv_new (o_new_prev o') prev) as [vp'|ep']; try contradiction; [|exact Hp].
      destruct Hp as (Np & Np' & Gp).
      pose proof (new_equiv (o_new_cur o) (o_new_cur o') cur Wc) as Hc.
      destruct (dv_new (o_new_cur o) cur) as [vc|ec], (dv_new (o_new_cur o') cur) as [vc'|ec']; try contradiction; [|exact Hc].
      destruct Hc as (Nc & Nc' & Gc).
      pose proof (verify_equiv (o_verify o) (o_verify o') salt vc vc' Nc Nc' Gc) as Hv.
      destruct (dv_verify (o_verify o) salt vc), (dv_verify (o_verify o') salt vc'); try contradiction; [|exact Hv].
      apply merge_equiv; assumption. }
    split; [exact D|]. unfold Sig.verification_step. destruct cid_ok; [|reflexivity].
    destruct (dv_verification o prev cur salt), (dv_verification o' prev cur salt); cbn [dres_equiv res_equiv] in *;
      try contradiction; auto.
  Qed.

  Theorem C15_holds : C15_full key_ok.
  Proof. exact (conj C15_reject (conj C15_only_equivocation (conj C15_keep_larger (conj C15_accept C15_order)))). Qed.
End Top.

(* ---------------- run level ---------------- *)
Lemma C15_reject_run : C15_reject_run_stmt.
Proof.
  intros X key_ok o prev cur salt l w fl Wp Wc Hi (Hl & Hpe & (v & Hce & Hv) & Hpi & Hci) Hw.
  destruct (C15_reject key_ok o prev cur salt Wp Wc Hi) as [Hr _]. rewrite Hr in Hw. cbn [forget] in Hw.
  unfold execute_air. rewrite Hl, Hpe, Hce, Hv, Hpi, Hci, Hw. reflexivity.
Qed.

Lemma dv_err_table_ok : dv_err_table_agrees = true.
Proof. vm_compute. reflexivity. Qed.
