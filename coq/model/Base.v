(* Base.v -- shared definitions of the AquaVM model: comparison operators of the generated
   tables, list/string helpers, the four-outcome result type. Definitions only. *)
From Coq Require Export String List NArith ZArith Bool Ascii.
From Aqua Require Export Generated.
Export ListNotations.

Definition cmp_apply (c : cmp_op) (a b : N) : bool :=
  match c with
  | CmpGt => N.ltb b a
  | CmpGe => N.leb b a
  | CmpLt => N.ltb a b
  | CmpLe => N.leb a b
  | CmpEq => N.eqb a b
  | CmpNe => negb (N.eqb a b)
  end.

Definition cmp_op_eqb (a b : cmp_op) : bool :=
  match a, b with
  | CmpGt, CmpGt | CmpGe, CmpGe | CmpLt, CmpLt | CmpLe, CmpLe | CmpEq, CmpEq | CmpNe, CmpNe => true
  | _, _ => false
  end.

Fixpoint list_eqb {A} (eqb : A -> A -> bool) (l1 l2 : list A) : bool :=
  match l1, l2 with
  | [], [] => true
  | x :: xs, y :: ys => eqb x y && list_eqb eqb xs ys
  | _, _ => false
  end.

Definition option_eqb {A} (eqb : A -> A -> bool) (a b : option A) : bool :=
  match a, b with
  | None, None => true
  | Some x, Some y => eqb x y
  | _, _ => false
  end.

Definition pair_eqb {A B} (ea : A -> A -> bool) (eb : B -> B -> bool) (p q : A * B) : bool :=
  ea (fst p) (fst q) && eb (snd p) (snd q).

(* position of the first element satisfying p *)
Fixpoint index_of {A} (p : A -> bool) (l : list A) : option N :=
  match l with
  | [] => None
  | x :: xs => if p x then Some 0%N else option_map N.succ (index_of p xs)
  end.

(* indices (from 0) of the elements of l on which f is false: used by the case files *)
Fixpoint failing_from {A} (f : A -> bool) (i : N) (l : list A) : list N :=
  match l with
  | [] => []
  | x :: xs => if f x then failing_from f (N.succ i) xs else i :: failing_from f (N.succ i) xs
  end.
Definition failing {A} (f : A -> bool) (l : list A) : list N := failing_from f 0%N l.
