"""Generator of C07 / C08 cases at the level of the TraceHandler (coq/model/MergeCases.v).

A case is {"kind": k, "rounds": [...]} ; the rounds are rounds of the `handler` driver
(harness/src/bin/handler.rs, see lib/handlergen.py): each one drives a real TraceHandler over
(prev, cur) chosen among earlier rounds' result traces.

kind 1  three states a, b, c of one instruction merged in every order / grouping the laws mention
        (pairs of state kinds with equal and different payloads; quick: all canon / ap pairs and a random
        half of the 196 call pairs with a random third state, thorough: all triples)
kind 2  one trace t built by an instruction tree (par / fold / call / ap / canon, lib/handlergen
        skeletons) and re-driven over (t, t), (t, nothing), (nothing, t) by the same tree
kind 3  two traces of one fold-free script at different progress (each cut where an honest
        execution stops: after the first call that is not executed in a sequential chain), merged in
        both orders, then re-merged with the inputs and with each other
kind 0  correspondence only (mixed instruction kinds, malformed ap states)"""
import handlergen

CALL_STATES = [["sent", "pA"], ["sent", "pB"], ["sent_id", "pA", 1], ["sent_id", "pB", 7],
               ["scalar", "x"], ["scalar", "y"], ["stream", "x", 0], ["stream", "x", 1], ["stream", "y", 0], ["stream", "y", 4],
               ["unused", "x"], ["unused", "y"], ["failed", "x"], ["failed", "y"]]
CANON_STATES = [["csent", "pA"], ["csent", "pB"], ["cexec", "x"], ["cexec", "y"]]
AP_STATES = [[0], [1], [5]]
AP_MALFORMED = [[], [0, 1]]


def st_call(c):
    return ["st_call", c]


def st_canon(c):
    return ["st_canon", c]


def st_ap(g):
    return ["st_ap", g]


def op_for(state):
    k = state[0]
    if k == "st_call":
        return ["call_auto", None, False]
    if k == "st_canon":
        return ["canon_auto", ["csent", "unused"], False]
    return ["ap_auto", 0]


def rnd(prev=-1, cur=-1, mp=None, mc=None, ops=None):
    return {"prev": prev, "cur": cur, "mut_prev": [["push", mp]] if mp is not None else [],
            "mut_cur": [["push", mc]] if mc is not None else [], "ops": ops or []}


def triple_case(a, b, c, kind=1):
    op = [op_for(a)]
    rounds = [
        rnd(mp=a, mc=b, ops=op),            # 0  a + b
        rnd(mp=b, mc=a, ops=op),            # 1  b + a
        rnd(mp=a, mc=a, ops=op),            # 2  a + a
        rnd(prev=0, mc=b, ops=op),          # 3  (a + b) + b
        rnd(prev=0, mc=a, ops=op),          # 4  (a + b) + a
        rnd(mp=b, mc=c, ops=op),            # 5  b + c
        rnd(prev=0, mc=c, ops=op),          # 6  (a + b) + c
        rnd(mp=a, cur=5, ops=op),           # 7  a + (b + c)
        rnd(mp=a, ops=op),                  # 8  a + nothing
        rnd(prev=1, mc=a, ops=op),          # 9  (b + a) + a
        rnd(prev=1, mc=b, ops=op),          # 10 (b + a) + b
    ]
    return {"kind": kind, "rounds": rounds, "gen": "states/%s/%s/%s" % (a[0][3:], b[0][3:], c[0][3:]),
            "key": ["states", a, b, c]}


def all_state_groups():
    return [[st_call(c) for c in CALL_STATES], [st_canon(c) for c in CANON_STATES], [st_ap(g) for g in AP_STATES]]


def state_cases(rng, exhaustive):
    cases = []
    for group in all_state_groups():
        for a in group:
            for b in group:
                if exhaustive:
                    for c in group:
                        cases.append(triple_case(a, b, c))
                elif len(group) < 10 or rng.random() < 0.55:
                    cases.append(triple_case(a, b, rng.choice(group)))
    # correspondence only: different instruction kinds against each other, malformed ap states
    everything = [s for g in all_state_groups() for s in g] + [st_ap(g) for g in AP_MALFORMED] + [["st_par", 1, 0], ["st_fold", []]]
    n = 40 if not exhaustive else 600
    for _ in range(n):
        a, b, c = rng.choice(everything), rng.choice(everything), rng.choice(everything)
        if a[0] == b[0] == c[0] and a[0] != "st_ap":
            continue
        if a[0] in ("st_par", "st_fold"):
            a = rng.choice(everything[:8])
        cases.append(triple_case(a, b, c, kind=0))
    return cases


# ------------------------------------------------------------------------------------------------
# kind 2: replay of one trace

def as_replay(ops):
    out = []
    for o in ops:
        if o[0] == "call_auto":
            out.append(["call_auto", None, False])
        elif o[0] == "canon_auto":
            out.append(["canon_auto", o[1], False])
        else:
            out.append(o)
    return out


def gen_honest_skeleton(rng, depth, ids):
    """Instruction trees as an honest interpreter drives them: a stream fold visits every value of its
    stream once, generation by generation (values of one fold generation carry the same stream generation,
    different fold generations different ones)."""
    out = []
    for _ in range(rng.choice([1, 2, 2, 3, 4])):
        x = rng.random()
        if depth > 0 and x < 0.22:
            out.append(("par", gen_honest_skeleton(rng, depth - 1, ids), gen_honest_skeleton(rng, depth - 1, ids)))
        elif depth > 0 and x < 0.40:
            ids["fold"] += 1
            gens, g = [], 0
            for _grp in range(rng.choice([1, 1, 2, 3])):
                gens += [g] * rng.choice([1, 1, 2, 3])
                g += rng.choice([1, 1, 2])
            out.append(("fold", ids["fold"], gens, gen_honest_skeleton(rng, depth - 1, ids), gen_honest_skeleton(rng, depth - 1, ids),
                        rng.random() < 0.3))
        elif x < 0.55:
            out.append(("ap", rng.randrange(3)))
        elif x < 0.63:
            ids["cid"] += 1
            out.append(("canon", "cn%d" % ids["cid"]))
        else:
            ids["cid"] += 1
            out.append(("call", "c%d" % ids["cid"], rng.choice(["scalar", "scalar", "stream", "unused", "failed"])))
    return out


def drive_full(nodes, rng, known, peer, ops, st):
    """Every instruction leaves its state: executed with probability `known`, else pending.
    st["pos"] = length of the result trace so far (every op of this driver pushes exactly one state when the
    traces it starts from are empty)."""
    for nd in nodes:
        k = nd[0]
        if k == "call":
            cid, kind = nd[1], nd[2]
            if rng.random() < known:
                d = [kind, cid, rng.randrange(3)] if kind == "stream" else [kind, cid]
            else:
                d = ["sent", peer] if rng.random() < 0.7 else ["sent_id", peer, rng.randrange(1, 9)]
            ops.append(["call_auto", d, False])
            st["pos"] += 1
        elif k == "ap":
            ops.append(["ap_auto", nd[1]])
            st["pos"] += 1
        elif k == "canon":
            ops.append(["canon_auto", ["cexec", nd[1]] if rng.random() < known else ["csent", peer], False])
            st["pos"] += 1
        elif k == "par":
            ops.append(["par_start"])
            st["pos"] += 1
            drive_full(nd[1], rng, known, peer, ops, st)
            ops.append(["par_end", True])
            drive_full(nd[2], rng, known, peer, ops, st)
            ops.append(["par_end", False])
        elif k == "fold":
            _, fid, gens, before, after, has_last = nd
            positions = []
            for g in gens:                                   # the values of the stream: ap states
                ops.append(["ap_auto", g])
                positions.append((g, st["pos"]))
                st["pos"] += 1
            ops.append(["fold_start", fid])
            st["pos"] += 1
            for g in sorted(set(gens)):
                vals = [p for gg, p in positions if gg == g]
                for p in vals:
                    ops.append(["iter_pos", fid, p])
                    drive_full(before, rng, known, peer, ops, st)
                    ops.append(["iter_end", fid])
                ops.append(["back", fid])
                if has_last:
                    ops.append(["call_auto", ["scalar", "last%d" % fid], False])
                    st["pos"] += 1
                for i in range(len(vals)):
                    drive_full(after, rng, known, peer, ops, st)
                    if i + 1 < len(vals):
                        ops.append(["back", fid])
                ops.append(["gen_end", fid])
            ops.append(["fold_end", fid])
    return ops


def replay_case(rng):
    ids = {"fold": 0, "cid": 0}
    skel = gen_honest_skeleton(rng, rng.choice([1, 2, 2, 3]), ids)
    ops = []
    drive_full(skel, rng, rng.choice([0.0, 0.4, 0.8, 1.0]), "p0", ops, {"pos": 0})
    rep = as_replay(ops)
    rounds = [rnd(ops=ops),
              {"prev": 0, "cur": 0, "mut_prev": [], "mut_cur": [], "ops": rep},
              {"prev": 0, "cur": -1, "mut_prev": [], "mut_cur": [], "ops": rep},
              {"prev": -1, "cur": 0, "mut_prev": [], "mut_cur": [], "ops": rep}]
    return {"kind": 2, "rounds": rounds, "gen": "replay/" + shape_of(skel), "key": ["replay", ops]}


def shape_of(nodes):
    kinds = set()

    def walk(ns):
        for nd in ns:
            kinds.add(nd[0])
            if nd[0] == "par":
                walk(nd[1]); walk(nd[2])
            elif nd[0] == "fold":
                walk(nd[3]); walk(nd[4])
    walk(nodes)
    return "+".join(sorted(k for k in kinds if k in ("par", "fold", "canon", "ap", "call")))


# ------------------------------------------------------------------------------------------------
# kind 3: two honest-looking traces of one fold-free script at different progress

def gen_flat_skeleton(rng, depth, ids):
    out = []
    for _ in range(rng.choice([1, 2, 2, 3, 4])):
        x = rng.random()
        if depth > 0 and x < 0.3:
            out.append(("par", gen_flat_skeleton(rng, depth - 1, ids), gen_flat_skeleton(rng, depth - 1, ids)))
        elif x < 0.42:
            out.append(("ap",))
        elif x < 0.52:
            ids["cid"] += 1
            out.append(("canon", "cn%d" % ids["cid"]))
        else:
            ids["cid"] += 1
            out.append(("call", "c%d" % ids["cid"], rng.choice(["scalar", "scalar", "scalar", "stream", "stream", "unused", "failed"])))
    return out


def drive_honest(nodes, known, peer, gens, ops, replay, par_rule):
    """Ops of an execution that knows the results in `known`; returns True when the chain completed.
    replay=False: states are produced from nothing; replay=True: merged states are re-emitted and a
    call without state becomes a request sent by `peer`."""
    for nd in nodes:
        k = nd[0]
        if k == "call":
            cid, kind = nd[1], nd[2]
            if replay:
                ops.append(["call_auto", ["sent", peer], False])
            elif cid in known:
                ops.append(["call_auto", [kind, cid, gens.get(cid, 0)] if kind == "stream" else [kind, cid], False])
            else:
                ops.append(["call_auto", ["sent", peer], False])
            if cid not in known or kind == "failed":
                return False
        elif k == "ap":
            ops.append(["ap_auto", gens.get("ap", 0)])
        elif k == "canon":
            if replay:
                ops.append(["canon_auto", ["csent", peer], False])
            else:
                ops.append(["canon_auto", ["cexec", nd[1]] if nd[1] in known else ["csent", peer], False])
            if nd[1] not in known:
                return False
        elif k == "par":
            ops.append(["par_start"])
            l = drive_honest(nd[1], known, peer, gens, ops, replay, par_rule)
            ops.append(["par_end", True])
            r = drive_honest(nd[2], known, peer, gens, ops, replay, par_rule)
            ops.append(["par_end", False])
            if not ((l or r) if par_rule == "or" else (l and r)):
                return False
    return True


def all_ids(nodes, acc):
    for nd in nodes:
        if nd[0] in ("call", "canon"):
            acc.append(nd[1])
        elif nd[0] == "par":
            all_ids(nd[1], acc); all_ids(nd[2], acc)
    return acc


def progress_case(rng):
    ids = {"cid": 0}
    skel = gen_flat_skeleton(rng, rng.choice([1, 2, 2, 3]), ids)
    everything = all_ids(skel, [])
    par_rule = rng.choice(["or", "and"])
    f1, f2 = rng.choice([0.2, 0.5, 0.8]), rng.choice([0.2, 0.5, 0.8, 1.0])
    k1 = {c for c in everything if rng.random() < f1}
    k2 = {c for c in everything if rng.random() < f2}
    g1 = {c: rng.randrange(3) for c in everything}
    g1["ap"] = rng.randrange(3)
    g2 = {c: rng.randrange(3) for c in everything}
    g2["ap"] = rng.randrange(3)
    o0, o1, om = [], [], []
    drive_honest(skel, k1, "p1", g1, o0, False, par_rule)
    drive_honest(skel, k2, "p2", g2, o1, False, par_rule)
    drive_honest(skel, k1 | k2, "obs", {}, om, True, par_rule)
    rounds = [rnd(ops=o0), rnd(ops=o1),
              {"prev": 0, "cur": 1, "mut_prev": [], "mut_cur": [], "ops": om},      # 2 p + c
              {"prev": 1, "cur": 0, "mut_prev": [], "mut_cur": [], "ops": om},      # 3 c + p
              {"prev": 2, "cur": 1, "mut_prev": [], "mut_cur": [], "ops": om},      # 4 (p + c) + c
              {"prev": 2, "cur": 0, "mut_prev": [], "mut_cur": [], "ops": om},      # 5 (p + c) + p
              {"prev": 2, "cur": 2, "mut_prev": [], "mut_cur": [], "ops": om},      # 6 (p + c) + (p + c)
              {"prev": 2, "cur": 3, "mut_prev": [], "mut_cur": [], "ops": om}]      # 7 (p + c) + (c + p)
    return {"kind": 3, "rounds": rounds, "gen": "progress/" + (shape_of(skel) or "flat") + "/" + par_rule,
            "key": ["progress", o0, o1]}


def gen_body(rng, depth, ids):
    """fold body whose every instruction leaves a state whatever is known: calls and canons under pars"""
    ids["cid"] += 1
    if depth > 0 and rng.random() < 0.6:
        return [("par", gen_body(rng, depth - 1, ids), gen_body(rng, depth - 1, ids))]
    if rng.random() < 0.2:
        return [("canon", "cn%d" % ids["cid"])]
    return [("call", "c%d" % ids["cid"], rng.choice(["scalar", "scalar", "stream", "unused"]))]


def drive_body(nodes, known, peer, ops, replay, suffix):
    for nd in nodes:
        if nd[0] == "call":
            cid = nd[1] + suffix
            if replay:
                ops.append(["call_auto", ["sent", peer], False])
            elif cid in known:
                ops.append(["call_auto", [nd[2], cid, 0] if nd[2] == "stream" else [nd[2], cid], False])
            else:
                ops.append(["call_auto", ["sent", peer], False])
        elif nd[0] == "canon":
            cid = nd[1] + suffix
            ops.append(["canon_auto", ["cexec", cid] if (cid in known and not replay) else ["csent", peer], False])
        else:
            ops.append(["par_start"])
            drive_body(nd[1], known, peer, ops, replay, suffix)
            ops.append(["par_end", True])
            drive_body(nd[2], known, peer, ops, replay, suffix)
            ops.append(["par_end", False])


def body_ids(nodes, suffix, acc):
    for nd in nodes:
        if nd[0] in ("call", "canon"):
            acc.append(nd[1] + suffix)
        else:
            body_ids(nd[1], suffix, acc); body_ids(nd[2], suffix, acc)
    return acc


def fold_progress_case(rng):
    """kind 3 with a stream fold: the values of the stream are results of calls that BOTH traces hold (executed,
    one generation), the fold visits them in one generation; the bodies differ in what is known.  The lore of the
    current trace is found through the position mapping of the merged value states (scheme Both)."""
    ids = {"cid": 0}
    nvals = rng.choice([1, 2, 3])
    body = gen_body(rng, rng.choice([0, 1, 2]), ids)
    everything = []
    for v in range(nvals):
        body_ids(body, "_%d" % v, everything)
    f1, f2 = rng.choice([0.2, 0.5, 0.8]), rng.choice([0.3, 0.6, 1.0])
    k1 = {c for c in everything if rng.random() < f1}
    k2 = {c for c in everything if rng.random() < f2}

    def drive(known, peer, replay, gen):
        ops = []
        for v in range(nvals):
            ops.append(["call_auto", ["sent", peer] if replay else ["stream", "val%d" % v, gen], False])
        ops.append(["fold_start", 1])
        for v in range(nvals):
            ops.append(["iter_pos", 1, v])
            drive_body(body, known, peer, ops, replay, "_%d" % v)
            ops.append(["iter_end", 1])
        ops.append(["back", 1])
        for v in range(nvals - 1):
            ops.append(["back", 1])
        ops.append(["gen_end", 1])
        ops.append(["fold_end", 1])
        return ops
    o0, o1, om = drive(k1, "p1", False, 0), drive(k2, "p2", False, 0), drive(k1 | k2, "obs", True, 0)
    rounds = [rnd(ops=o0), rnd(ops=o1)]
    for pr, cu in [(0, 1), (1, 0), (2, 1), (2, 0), (2, 2), (2, 3)]:
        rounds.append({"prev": pr, "cur": cu, "mut_prev": [], "mut_cur": [], "ops": om})
    return {"kind": 3, "rounds": rounds, "gen": "progress/stream-fold+" + (shape_of(body) or "call"), "key": ["fold-progress", o0, o1]}


def gen_cases(rng, tier, escalate=False):
    thorough = tier == "thorough"
    cases = state_cases(rng, exhaustive=thorough or escalate)
    n2, n3 = (60, 100) if not thorough else (800, 1500)
    if escalate:
        n2, n3 = n2 * 3, n3 * 3
    for _ in range(n2):
        cases.append(replay_case(rng))
    for _ in range(n3):
        cases.append(progress_case(rng))
    for _ in range(n3 // 3):
        cases.append(fold_progress_case(rng))
    return cases
