#!/usr/bin/env python3
"""usage: check_repo_tests.py LOG -- compares a `cargo test --workspace --no-fail-fast` log with /root/.vp/BASELINE.json stable_pass"""
import json, re, sys
b = json.load(open('/root/.vp/BASELINE.json'))
sp = b['stable_pass']
log = open(sys.argv[1]).read()
failed = set(re.findall(r"test (\S+) (?:- should panic )?\.\.\. FAILED", log))
ok = set(re.findall(r"test (\S+) (?:- should panic )?\.\.\. ok", log))
bad = [t for t in sp if any(t.endswith('::' + f) for f in failed) and not any(t.endswith('::' + o) for o in ok)]
missing = [t for t in sp if not any(t.endswith('::' + o) for o in ok)]
print("ok lines:", len(ok), "failed lines:", len(failed))
print("baseline tests that FAILED:", bad)
print("baseline tests not seen passing:", missing)
print("compile errors:", len(re.findall(r"^error(\[E\d+\])?:", log, flags=re.M)) - log.count("error: 1 target failed") - log.count("error: test failed"))
