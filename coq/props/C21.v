(* props/C21.v -- data from unsupported interpreter versions is rejected. *)
From Aqua Require Import Base RunTop RunTopProofs.
Open Scope N_scope.

Theorem C21 : forall X : Type, C21_full X.
Proof. exact C21_holds. Qed.

(* the compared field, the comparison and the minimal version are the ones in /repo today *)
Theorem C21_source_tie : version_check_agrees = true /\ prep_table_agrees = true.
Proof. exact (conj version_check_ok prep_table_ok). Qed.

Definition C21_example_world (v : version) : world nat :=
  {| w_air_len := 10; w_cur_len := 20; w_prev_empty := true; w_prev_env := ROk tt;
     w_cur_env := ROk v; w_prev_inner := ROk tt; w_cur_inner := ROk tt;
     w_verify := ROk tt; w_parse_air := ROk tt; w_call_results := ROk [];
     w_keypair := ROk tt; w_rest := 42%nat |}.
Example C21_nonvacuous :
  let old := {| v_major := fst (fst min_version); v_minor := snd (fst min_version);
                v_patch := snd min_version; v_pre_nonempty := true |} in
  wf_world nat (C21_example_world old) = true /\
  execute_air nat (unlimited) (C21_example_world old) = Failed UnsupportedInterpreterVersion None no_flags /\
  execute_air nat (unlimited) (C21_example_world min_as_version) = Rest 42%nat no_flags.
Proof. vm_compute. repeat split. Qed.

Print Assumptions C21.
Print Assumptions C21_source_tie.
