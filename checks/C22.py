"""C22 -- size limits are enforced exactly as configured."""
import airgen
import runtop_common

PID = "C22"
MODEL_TARGETS = ["model/RunTopCases.vo"]
HARNESS_BINS = ["runtop"]
RULE = ("histories of generated scripts over 3 peers; at every run the real execute_air is re-run under "
        "limit variants (size-1, size, size+1, 0, max for each of the three limits, both modes, and joint settings) "
        "and under input mutations that make an earlier stage fail; a case is one (input, limits) pair; "
        "distinct = different (mutation, sizes, unlimited code); non-trivial = at least one size is non-zero")
PARTIAL = ["the stages after the limit checks (decoders, verifier, parser, executor) are opaque fields of the model's world: "
           "the theorem says the limits cannot influence them, the translator checks that no other source line reads a limit"]
ASSUMPTIONS = ["message prefixes 'air size:' / 'Current_data particle size:' / 'Call result size' identify the size error kind"]
MUTS = ["none", "cur_garbage", "cur_truncated", "cur_inner_garbage", "prev_garbage", "air_garbage", "air_unscoped",
        "cr_garbage", "cr_other_codec", "cr_extra_big", "bad_key_format", "bad_key_bytes", "old_version_inner_garbage"]


def gen_cases(rng, tier, escalate=False):
    n = {"quick": 10, "thorough": 120}[tier] * (4 if escalate else 1)
    cases = []
    for k in range(n):
        prof = airgen.Profile(peers=3, depth=rng.choice([2, 3, 4]), canon=False)
        script = airgen.gen_script(rng, prof)
        ops = airgen.gen_schedule(rng, n_ops=rng.choice([6, 10, 16]))
        nmut = 3 if tier == "quick" else 5
        muts = ["none"] + rng.sample(MUTS[1:], nmut)
        steps = sorted(rng.sample(range(0, 14), 3 if tier == "quick" else 5))
        extra = [[rng.choice([0, 50, 200, 2**64 - 1]), rng.choice([0, 300, 2000, 2**64 - 1]), rng.choice([0, 3, 8, 2**64 - 1]), rng.random() < 0.5]
                 for _ in range(4)]
        cases.append({"mode": "limits", "script": script, "peers": airgen.PEERS[:3], "init": 0,
                      "services": airgen.DEFAULT_SERVICES, "ops": ops, "mutations": muts, "probe_steps": steps,
                      "extra_limits": extra, "seed": rng.randrange(1 << 30)})
    return cases


def evaluate(cases, result, tier):
    runtop_common.evaluate(cases, result, "c22_oracle")
